"""Batch runner: seeded search over scenarios on 16 fork workers, minimisation,
replay files, known findings, evidence."""
from __future__ import annotations

import concurrent.futures as cf
import copy
import faulthandler
import hashlib
import json
import multiprocessing as mp
import os
import random
import subprocess
import sys
import time
import traceback
from typing import Any, Callable, Dict, List, Optional, Tuple

VERIF = os.path.dirname(os.path.dirname(os.path.abspath(__file__)))
BITS = 1 << 27


def item_seed(master: int, prop: str, stratum: str, i: int) -> int:
    h = hashlib.sha256(("%d/%s/%s/%d" % (master, prop, stratum, i)).encode()).digest()
    return int.from_bytes(h[:8], "big")


class Stratum:
    def __init__(self, name: str, count: int, gen: Callable[[random.Random, int], Dict[str, Any]],
                 systematic: bool = False, note: str = ""):
        self.name = name
        self.count = count
        self.gen = gen
        self.systematic = systematic
        self.note = note


class Prop:
    def __init__(self, pid: str, level: str, judge, strata: Callable[[str], List[Stratum]], rule: str,
                 real_vs_stub: str, required_probes: Optional[List[str]] = None, assumptions: Optional[List[str]] = None):
        self.pid = pid
        self.level = level
        self.judge = judge
        self.strata = strata
        self.rule = rule
        self.real_vs_stub = real_vs_stub
        self.required_probes = required_probes or []
        self.assumptions = assumptions or []


def execute(scn: Dict[str, Any]):
    eng = scn["engine"]
    if eng == "tcp":
        from engines import tcp_exec
        return tcp_exec.run(scn)
    if eng == "udp":
        from engines import udp_exec
        return udp_exec.run(scn)
    if eng == "clock":
        from engines import clock_exec
        return clock_exec.run(scn)
    raise ValueError("unknown engine %r" % eng)


def pid_has_own_hang_rule(pid: str) -> bool:
    return pid in ("C09", "C07")


def run_scenario(prop: Prop, scn: Dict[str, Any]):
    run = execute(scn)
    if getattr(run, "cap", None):
        raise RuntimeError("run cap exceeded: %s" % run.cap)
    viols, counters = prop.judge(scn, run)
    fault = getattr(getattr(run, "sim", None), "harness_fault", None)
    if fault:
        raise RuntimeError("simulation seam bypassed: %s" % fault)
    steps_text = json.dumps(scn.get("steps", []))
    reply_faults = any(('"mode": "%s"' % m) in steps_text for m in
                       ("truncate", "segment", "garbage", "corrupt", "eof", "rst", "silent", "extra"))
    if getattr(run, "deadlock", None) and not reply_faults and not pid_has_own_hang_rule(prop.pid):
        # bounded liveness in the absence of reply faults: the peer answered every frame completely, nothing is
        # pending, yet the code under test waits forever.  (Under truncated or garbled replies only C09 and C16
        # speak about termination; they have their own clause.)
        key = "%s/hang" % prop.pid
        if not any(k.endswith("/hang") or "/hang/" in k for k, _ in viols):
            viols = list(viols) + [(key, "the event loop went idle forever with an operation still pending: %s" % run.deadlock)]
    return run, viols, counters


def make_scenario(prop: Prop, stratum: Stratum, master: int, i: int) -> Dict[str, Any]:
    rng = random.Random(item_seed(master, prop.pid, stratum.name, i))
    scn = stratum.gen(rng, i)
    scn["property"] = prop.pid
    scn["stratum"] = stratum.name
    scn["origin"] = {"master_seed": master, "index": i}
    return scn


def _setbit(lst: list, hexdigest: str):
    lst.append(int(hexdigest[:12], 16) % BITS)


def _popcount(bm: bytes) -> int:
    return int.from_bytes(bm, "little").bit_count()


_REGISTRY: Dict[str, Prop] = {}


def registry() -> Dict[str, Prop]:
    if not _REGISTRY:
        from engines import props
        _REGISTRY.update(props.build())
    return _REGISTRY


def _work(args):
    pid, tier, master, stratum_name, indices, resample_every = args
    faulthandler.dump_traceback_later(600, exit=True)
    prop = registry()[pid]
    stratum = [s for s in prop.strata(tier) if s.name == stratum_name][0]
    out: Dict[str, Any] = {"runs": 0, "viols": [], "counters": {}, "fired": {}, "digests": [],
                           "sigs": [], "nontrivial": [], "sim_time": 0.0,
                           "samples": [], "resamples": 0, "resample_mismatch": [], "errors": [], "steps": 0}
    per_key: Dict[str, int] = {}
    for i in indices:
        try:
            scn = make_scenario(prop, stratum, master, i)
            run, viols, counters = run_scenario(prop, scn)
        except Exception:
            out["errors"].append("stratum %s index %d: %s" % (stratum_name, i, traceback.format_exc()[-1500:]))
            if len(out["errors"]) > 3:
                break
            continue
        out["runs"] += 1
        out["steps"] += len(scn.get("steps", []))
        out["sim_time"] += getattr(run, "mono_end", 0.0)
        for k, n in counters.items():
            out["counters"][k] = out["counters"].get(k, 0) + n
        fired = getattr(run, "fired", None)
        if fired is None and getattr(run, "sim", None) is not None:
            fired = run.sim.fired
        for k, n in (fired or {}).items():
            out["fired"][k] = out["fired"].get(k, 0) + n
        _setbit(out["digests"], run.digest)
        _setbit(out["sigs"], run.sig + "0000")
        judged = sum(n for k, n in counters.items() if k.startswith("judged"))
        if judged and (len(scn.get("steps", [])) >= 2 or fired):
            _setbit(out["nontrivial"], run.digest)
        if len(out["samples"]) < 1:
            out["samples"].append(scn)
        for key, msg in viols:
            if per_key.get(key, 0) < 2:
                per_key[key] = per_key.get(key, 0) + 1
                out["viols"].append((key, msg, scn))
        if resample_every and out["runs"] % resample_every == 1:
            run2 = execute(copy.deepcopy(scn))
            out["resamples"] += 1
            if run2.digest != run.digest:
                out["resample_mismatch"].append((stratum_name, i))
    faulthandler.cancel_dump_traceback_later()
    return out


# ------------------------------------------------------------- known findings


def load_known() -> List[Dict[str, str]]:
    path = os.path.join(VERIF, "known_findings.txt")
    out = []
    if not os.path.exists(path):
        return out
    for line in open(path):
        line = line.strip()
        if not line or line.startswith("#"):
            continue
        status, _, rest = line.partition(":")
        fields = dict(tok.split("=", 1) for tok in rest.split() if "=" in tok and tok.split("=")[0] in ("property", "key"))
        out.append({"status": status.strip(), "property": fields.get("property", ""), "key": fields.get("key", ""),
                    "text": rest.strip()})
    return out


def known_open(pid: str, key: str) -> Optional[Dict[str, str]]:
    for k in load_known():
        if k["status"] == "open" and k["property"] == pid and k["key"] and key.startswith(k["key"]):
            return k
    return None


# ------------------------------------------------------------------ minimiser


def reproduces(prop: Prop, scn: Dict[str, Any], key: str) -> bool:
    try:
        _, viols, _ = run_scenario(prop, scn)
    except Exception:
        return False
    return any(k == key for k, _ in viols)


def minimise(prop: Prop, scn: Dict[str, Any], key: str, budget: int = 400) -> Dict[str, Any]:
    best = copy.deepcopy(scn)
    tries = [0]

    def ok(cand) -> bool:
        if tries[0] >= budget:
            return False
        tries[0] += 1
        return reproduces(prop, cand, key)

    # 1. ddmin over steps
    n = 2
    steps = best["steps"]
    while len(steps) >= 2 and tries[0] < budget:
        chunk = max(1, len(steps) // n)
        reduced = False
        for start in range(0, len(steps), chunk):
            cand = copy.deepcopy(best)
            cand["steps"] = steps[:start] + steps[start + chunk:]
            if cand["steps"] and ok(cand):
                best = cand
                steps = best["steps"]
                n = max(n - 1, 2)
                reduced = True
                break
        if not reduced:
            if chunk == 1:
                break
            n = min(n * 2, len(steps))
    # 2. per-step simplification
    for idx in range(len(best["steps"])):
        for field in ("replies", "sends", "gap", "jump_during", "delay", "dup", "cb_raise"):
            if field in best["steps"][idx]:
                cand = copy.deepcopy(best)
                del cand["steps"][idx][field]
                if ok(cand):
                    best = cand
    # 3. configuration simplification
    cfg = best.get("config", {})
    for field, simple in (("tz", "UTC"), ("epoch0", 1_600_000_000.0), ("sched", 0)):
        if field in cfg and cfg[field] != simple:
            cand = copy.deepcopy(best)
            cand["config"][field] = simple
            if ok(cand):
                best = cand
    if len(cfg.get("clients", [])) > 1:
        used = {s.get("client", 0) for s in best["steps"]}
        if used == {0}:
            cand = copy.deepcopy(best)
            cand["config"]["clients"] = cand["config"]["clients"][:1]
            if ok(cand):
                best = cand
    best["minimised"] = {"candidate_runs": tries[0], "from_steps": len(scn["steps"]), "to_steps": len(best["steps"])}
    return best


def reproduces_fresh(pid: str, scn: Dict[str, Any], key: str, path: str) -> bool:
    tmp = path + ".cand"
    with open(tmp, "w") as fh:
        json.dump(scn, fh)
    try:
        rr = replay_in_fresh_interpreter(pid, tmp)
        return key in rr.get("keys", [])
    except Exception:
        return False
    finally:
        try:
            os.unlink(tmp)
        except OSError:
            pass


def minimise_fresh(pid: str, scn: Dict[str, Any], key: str, path: str, budget: int = 30) -> Dict[str, Any]:
    best = copy.deepcopy(scn)
    tries = 0
    n = 2
    steps = best["steps"]
    while len(steps) >= 2 and tries < budget:
        chunk = max(1, len(steps) // n)
        reduced = False
        for start in range(0, len(steps), chunk):
            if tries >= budget:
                break
            cand = copy.deepcopy(best)
            cand["steps"] = steps[:start] + steps[start + chunk:]
            tries += 1
            if cand["steps"] and reproduces_fresh(pid, cand, key, path):
                best = cand
                steps = best["steps"]
                n = max(n - 1, 2)
                reduced = True
                break
        if not reduced:
            if chunk == 1:
                break
            n = min(n * 2, len(steps))
    best["minimised"] = {"candidate_runs": tries, "from_steps": len(scn["steps"]), "to_steps": len(best["steps"]),
                         "mode": "fresh interpreter per candidate"}
    return best


def replay_in_fresh_interpreter(pid: str, path: str) -> Dict[str, Any]:
    env = dict(os.environ)
    env["PYTHONHASHSEED"] = os.environ.get("PYTHONHASHSEED", "0")     # same hash seed as the batch: exact replay
    env.pop("VERIF_REEXEC", None)
    p = subprocess.run([sys.executable, os.path.join(VERIF, "check"), pid, "--replay", path, "--json"],
                       capture_output=True, text=True, env=env, timeout=300)
    for line in p.stdout.splitlines():
        if line.startswith("{"):
            return json.loads(line)
    raise RuntimeError("replay produced no result: rc=%s out=%s err=%s" % (p.returncode, p.stdout[-500:], p.stderr[-800:]))


# ------------------------------------------------------------------- the batch


def run_check(pid: str, tier: str, master: int) -> int:
    t0 = time.time()
    prop = registry()[pid]
    strata = prop.strata(tier)
    workers = int(os.environ.get("VERIF_WORKERS", "16"))
    budget_s = float(os.environ.get("VERIF_BUDGET_S", "120" if tier == "quick" else "3000"))
    print("check %s tier=%s VERIF_SEED=%d workers=%d" % (pid, tier, master, workers), flush=True)
    jobs = []
    for s in strata:
        idx = list(range(s.count))
        if s.systematic:
            random.Random(item_seed(master, pid, s.name, -1)).shuffle(idx)
        chunk = max(20, min(400, s.count // (workers * 4) or 1))
        for a in range(0, len(idx), chunk):
            jobs.append((pid, tier, master, s.name, idx[a:a + chunk], 50))
    agg: Dict[str, Any] = {"runs": 0, "viols": [], "counters": {}, "fired": {}, "sim_time": 0.0, "samples": {},
                           "resamples": 0, "resample_mismatch": [], "errors": [], "steps": 0,
                           "per_stratum": {s.name: 0 for s in strata}}
    bms = {k: bytearray(BITS // 8) for k in ("digests", "sigs", "nontrivial")}
    stopped_early = False
    ctx = mp.get_context("fork")
    with cf.ProcessPoolExecutor(max_workers=workers, mp_context=ctx) as ex:
        futs = {ex.submit(_work, j): j for j in jobs}
        try:
            for f in cf.as_completed(futs, timeout=budget_s * 3 + 600):
                j = futs[f]
                try:
                    r = f.result()
                except Exception as e:
                    agg["errors"].append("worker failed on stratum %s: %r" % (j[3], e))
                    continue
                agg["runs"] += r["runs"]
                agg["steps"] += r["steps"]
                agg["per_stratum"][j[3]] += r["runs"]
                agg["sim_time"] += r["sim_time"]
                agg["resamples"] += r["resamples"]
                agg["resample_mismatch"] += r["resample_mismatch"]
                agg["errors"] += r["errors"]
                agg["viols"] += r["viols"]
                for k, n in r["counters"].items():
                    agg["counters"][k] = agg["counters"].get(k, 0) + n
                for k, n in r["fired"].items():
                    agg["fired"][k] = agg["fired"].get(k, 0) + n
                for s in r["samples"]:
                    agg["samples"].setdefault(j[3], s)
                for k in bms:
                    bm = bms[k]
                    for n in r[k]:
                        bm[n >> 3] |= 1 << (n & 7)
                if time.time() - t0 > budget_s and not stopped_early:
                    stopped_early = True
                    for g in futs:
                        g.cancel()
        except cf.TimeoutError:
            agg["errors"].append("batch timed out")
    harness_error = bool(agg["errors"])
    nondeterministic = bool(agg["resample_mismatch"])
    # ---- violations: minimise, write replay, verify, report
    by_key: Dict[str, List[tuple]] = {}
    for key, msg, scn in agg["viols"]:
        by_key.setdefault(key, []).append((msg, scn))
    new_violation = False
    cross_run_state: List[str] = []
    known_matched = []
    reported = []
    replay_dir = os.environ.get("VERIF_REPLAY_DIR") or os.path.join(VERIF, "replays")
    os.makedirs(replay_dir, exist_ok=True)
    for key in sorted(by_key)[:12]:
        msg, scn = min(by_key[key], key=lambda ms: len(ms[1]["steps"]))
        kf = known_open(pid, key)
        small = minimise(prop, scn, key)
        small["expect"] = {"property": pid, "key": key, "message": msg}
        blob = json.dumps(small, sort_keys=True, indent=1)
        name = "%s-%d-%s.json" % (pid, master, hashlib.sha256(key.encode()).hexdigest()[:10])
        path = os.path.join(replay_dir, name)
        with open(path, "w") as fh:
            fh.write(blob)
        try:
            rr = replay_in_fresh_interpreter(pid, path)
            same = key in rr.get("keys", [])
        except Exception as e:
            same = False
            agg["errors"].append("replay of %s failed: %r" % (path, e))
        if not same:
            # The violation may depend on state the code under test keeps ACROSS runs in one process (a module-level
            # cache, say), which in-process minimisation silently relies on.  Fall back to scenarios as generated,
            # judged in a fresh interpreter each, and minimise there (slowly, small budget).
            fresh = None
            for _, cand in sorted(by_key[key], key=lambda ms: -len(ms[1]["steps"]))[:8]:
                if reproduces_fresh(pid, cand, key, path):
                    fresh = cand
                    break
            if fresh is None:
                harness_error = True
                print("HARNESS-ERROR: replay of %s did not reproduce key %s" % (path, key))
                continue
            small = minimise_fresh(pid, fresh, key, path)
            small["expect"] = {"property": pid, "key": key, "message": msg}
            small["note"] = "depends on state kept across runs in one process: minimised with one fresh interpreter per candidate"
            with open(path, "w") as fh:
                fh.write(json.dumps(small, sort_keys=True, indent=1))
            cross_run_state.append(key)
        if kf:
            known_matched.append(key)
            print("KNOWN-FINDING: property=%s %s (key=%s replay=%s)" % (pid, kf["text"], key, path))
        else:
            new_violation = True
            print("VIOLATION property=%s replay=%s" % (pid, path))
            print("  key: %s" % key)
            print("  what: %s" % msg[:400])
            print("  minimised: %s" % json.dumps(small.get("minimised")))
        reported.append({"key": key, "message": msg[:300], "replay": path, "known": bool(kf)})
    if len(by_key) > 12:
        print("  (%d further violation keys not minimised)" % (len(by_key) - 12))
    # ---- probes
    missing = [p for p in prop.required_probes if not any(k == p or k.startswith(p) for k in agg["counters"])]
    if tier == "thorough" and missing and not stopped_early:
        harness_error = True
        print("HARNESS-ERROR: under-exploration, probes never hit: %s" % missing)
    # ---- evidence
    wall = time.time() - t0
    distinct = _popcount(bytes(bms["nontrivial"]))
    ev = {
        "property_id": pid, "tier": tier, "seed": master, "level": prop.level, "wall_s": round(wall, 2),
        "violations": sum(1 for r in reported if not r["known"]),
        "assumptions": prop.assumptions + [
            "fake socket layer behaves like Linux for the calls asyncio makes (narrowed by selftest-fidelity)",
            "CPython 3.12 asyncio internals (selector transports, StreamReader) are the real ones and trusted",
            "reference codecs/layouts in /verif/refs are a faithful copy of the protocol at the pinned commit"],
        "coverage": {
            "evaluations": agg["runs"],
            "distinct_nontrivial": max(distinct, 0),
            "rule": prop.rule + " | distinct = number of distinct event-log digests (sha256 of every socket call, "
                    "network event, operation and callback, bucketed into a 2^27-bit map, so a lower bound) among runs "
                    "with at least one judged observation and (>=2 steps or >=1 fault fired)",
            "samples": [agg["samples"][k] for k in sorted(agg["samples"])][:3],
            "exhaustive": False,
            "per_stratum_runs": agg["per_stratum"],
            "systematic_strata_complete": {s.name: (agg["per_stratum"][s.name] >= s.count) for s in strata if s.systematic},
            "steps_executed": agg["steps"],
            "runs_per_hour": int(agg["runs"] / wall * 3600) if wall > 0 else 0,
            "seeds": "VERIF_SEED=%d; run i of stratum s uses sha256(seed/property/s/i)" % master,
            "sim_time_covered_s": round(agg["sim_time"], 1),
            "faults_fired": dict(sorted(agg["fired"].items())),
            "distinct_event_log_digests": _popcount(bytes(bms["digests"])),
            "distinct_schedule_signatures": _popcount(bytes(bms["sigs"])),
            "observations": dict(sorted(agg["counters"].items())),
            "real_vs_stub": prop.real_vs_stub,
            "determinism_resamples": agg["resamples"],
            "determinism_mismatches": len(agg["resample_mismatch"]),
            "known_findings_matched": known_matched,
            "reported": reported,
            "stopped_early_on_budget": stopped_early,
            "harness_errors": agg["errors"][:5],
        },
    }
    if not os.environ.get("VERIF_NO_EVIDENCE"):
        os.makedirs(os.path.join(VERIF, "evidence"), exist_ok=True)
        with open(os.path.join(VERIF, "evidence", pid + ".json"), "w") as fh:
            json.dump(ev, fh, indent=1, sort_keys=True, default=str)
    print("runs=%d distinct_nontrivial=%d sim_time=%.0fs wall=%.1fs faults=%s" % (
        agg["runs"], distinct, agg["sim_time"], wall, json.dumps(dict(sorted(agg["fired"].items())))), flush=True)
    for e in agg["errors"][:5]:
        print("HARNESS-ERROR: %s" % e)
    if agg["resample_mismatch"]:
        print("HARNESS-ERROR: nondeterministic runs: %s" % agg["resample_mismatch"][:5])
    if new_violation:
        return 1
    if harness_error or nondeterministic:
        return 2
    print("OK property=%s held on everything explored" % pid)
    return 0


def replay(pid: str, path: str, as_json: bool) -> int:
    prop = registry()[pid]
    scn = json.load(open(path))
    run, viols, counters = run_scenario(prop, scn)
    keys = sorted({k for k, _ in viols})
    if as_json:
        print(json.dumps({"keys": keys, "digest": run.digest}))
        return 1 if keys else 0
    print("replay %s: digest %s" % (path, run.digest))
    rc = 0
    for k, m in viols:
        kf = known_open(pid, k)
        if kf:
            print("KNOWN-FINDING: property=%s %s" % (pid, kf["text"]))
        else:
            rc = 1
            print("VIOLATION property=%s replay=%s" % (pid, path))
            print("  key: %s\n  what: %s" % (k, m[:600]))
    if not viols:
        print("no violation")
    return rc
