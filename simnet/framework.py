"""Batch runner: seeded search over scenarios on 16 fork workers, minimisation,
replay files, known findings, evidence."""
from __future__ import annotations

import concurrent.futures as cf
import copy
import faulthandler
import hashlib
import json
import multiprocessing as mp
import os
import random
import subprocess
import sys
import time
import traceback
from typing import Any, Callable, Dict, List, Optional, Tuple

VERIF = os.path.dirname(os.path.dirname(os.path.abspath(__file__)))
BITS = 1 << 27


def item_seed(master: int, prop: str, stratum: str, i: int) -> int:
    h = hashlib.sha256(("%d/%s/%s/%d" % (master, prop, stratum, i)).encode()).digest()
    return int.from_bytes(h[:8], "big")


class Stratum:
    def __init__(self, name: str, count: int, gen: Callable[[random.Random, int], Dict[str, Any]],
                 systematic: bool = False, note: str = ""):
        self.name = name
        self.count = count
        self.gen = gen
        self.systematic = systematic
        self.note = note


class Prop:
    def __init__(self, pid: str, level: str, judge, strata: Callable[[str], List[Stratum]], rule: str,
                 real_vs_stub: str, required_probes: Optional[List[str]] = None, assumptions: Optional[List[str]] = None):
        self.pid = pid
        self.level = level
        self.judge = judge
        self.strata = strata
        self.rule = rule
        self.real_vs_stub = real_vs_stub
        self.required_probes = required_probes or []
        self.assumptions = assumptions or []


def execute(scn: Dict[str, Any]):
    eng = scn["engine"]
    if eng == "tcp":
        from engines import tcp_exec
        return tcp_exec.run(scn)
    if eng == "udp":
        from engines import udp_exec
        return udp_exec.run(scn)
    if eng == "clock":
        from engines import clock_exec
        return clock_exec.run(scn)
    raise ValueError("unknown engine %r" % eng)


def pid_has_own_hang_rule(pid: str) -> bool:
    return pid in ("C09", "C07")


def run_scenario(prop: Prop, scn: Dict[str, Any]):
    # a replay file may carry a prelude: scenarios the same process had executed before this one (only when the
    # violation depends on state the code under test keeps for the lifetime of a process)
    for pre in scn.get("prelude", []):
        try:
            execute(pre)
        except Exception:  # noqa
            pass
    run = execute(scn)
    if getattr(run, "cap", None):
        raise RuntimeError("run cap exceeded: %s" % run.cap)
    viols, counters = prop.judge(scn, run)
    fault = getattr(getattr(run, "sim", None), "harness_fault", None)
    if fault:
        raise RuntimeError("simulation seam bypassed: %s" % fault)
    steps_text = json.dumps(scn.get("steps", []))
    reply_faults = any(('"mode": "%s"' % m) in steps_text for m in
                       ("truncate", "segment", "garbage", "corrupt", "eof", "rst", "silent", "extra"))
    if getattr(run, "deadlock", None) and not reply_faults and not pid_has_own_hang_rule(prop.pid):
        # bounded liveness in the absence of reply faults: the peer answered every frame completely, nothing is
        # pending, yet the code under test waits forever.  (Under truncated or garbled replies only C09 and C16
        # speak about termination; they have their own clause.)
        key = "%s/hang" % prop.pid
        if not any(k.endswith("/hang") or "/hang/" in k for k, _ in viols):
            viols = list(viols) + [(key, "the event loop went idle forever with an operation still pending: %s" % run.deadlock)]
    return run, viols, counters


class IsolatedRun:
    """What a scenario executed in its own process reports back (the run object itself stays in the child)."""

    def __init__(self, d: Dict[str, Any]):
        self.digest = d["digest"]
        self.sig = d["sig"]
        self.mono_end = d["mono_end"]
        self.fired = d["fired"]


def _fork_call(fn: Callable[[], Any], timeout: float) -> Any:
    """Run fn() in a forked child and return its (picklable) result."""
    import pickle
    import select
    import signal
    r, w = os.pipe()
    sys.stdout.flush()
    sys.stderr.flush()
    child = os.fork()
    if child == 0:
        code = 0
        try:
            os.close(r)
            try:
                blob = pickle.dumps(("ok", fn()))
            except BaseException:  # noqa
                blob = pickle.dumps(("err", traceback.format_exc()[-3000:]))
            with os.fdopen(w, "wb") as fh:
                fh.write(blob)
            sys.stdout.flush()
            sys.stderr.flush()
        except BaseException:  # noqa
            code = 3
        finally:
            os._exit(code)
    os.close(w)
    chunks = []
    deadline = time.time() + timeout
    try:
        while True:
            left = deadline - time.time()
            if left <= 0:
                os.kill(child, signal.SIGKILL)
                os.waitpid(child, 0)
                raise RuntimeError("forked run exceeded %.0f s of wall time" % timeout)
            ready, _, _ = select.select([r], [], [], min(left, 5.0))
            if ready:
                b = os.read(r, 1 << 20)
                if not b:
                    break
                chunks.append(b)
    finally:
        os.close(r)
    _, status = os.waitpid(child, 0)
    if not chunks:
        raise RuntimeError("forked run died without a report (wait status %d)" % status)
    msg = pickle.loads(b"".join(chunks))
    if msg[0] == "err":
        raise RuntimeError("forked run failed:\n" + msg[1])
    return msg[1]


def _summary(prop: Prop, scn: Dict[str, Any]):
    run, viols, counters = run_scenario(prop, scn)
    fired = getattr(run, "fired", None)
    if fired is None and getattr(run, "sim", None) is not None:
        fired = run.sim.fired
    return ({"digest": run.digest, "sig": run.sig, "mono_end": getattr(run, "mono_end", 0.0), "fired": dict(fired or {})},
            list(viols), dict(counters))


def run_isolated(prop: Prop, scn: Dict[str, Any], timeout: float = 600.0):
    """One scenario (with its prelude, if any) = one process lifetime: fork from a process that has never run a
    scenario, run and judge in the child, report through a pipe.  Whatever the code under test (or a library below
    it) keeps for the lifetime of a process - module-level caches, "seen" sets, memoised dates, warning registries,
    libc's hidden time-zone state - starts out as in the fresh interpreter that replays the file."""
    d, viols, counters = _fork_call(lambda: _summary(prop, scn), timeout)
    return IsolatedRun(d), viols, counters


def make_scenario(prop: Prop, stratum: Stratum, master: int, i: int) -> Dict[str, Any]:
    rng = random.Random(item_seed(master, prop.pid, stratum.name, i))
    scn = stratum.gen(rng, i)
    scn["property"] = prop.pid
    scn["stratum"] = stratum.name
    scn["origin"] = {"master_seed": master, "index": i}
    return scn


def _setbit(lst: list, hexdigest: str):
    lst.append(int(hexdigest[:12], 16) % BITS)


def _popcount(bm: bytes) -> int:
    return int.from_bytes(bm, "little").bit_count()


_REGISTRY: Dict[str, Prop] = {}


def registry() -> Dict[str, Prop]:
    if not _REGISTRY:
        from engines import props
        _REGISTRY.update(props.build())
    return _REGISTRY


def _work(args):
    """A pool worker never runs a scenario itself: every chunk is one forked process lifetime, so what a chunk sees
    depends only on the chunk (whose composition is a function of the seed), not on which worker picked it up."""
    return _fork_call(lambda: _work_chunk(args), 3600.0)


def _work_chunk(args):
    pid, tier, master, stratum_name, indices, resample_every = args
    faulthandler.dump_traceback_later(600, exit=True)
    prop = registry()[pid]
    stratum = [s for s in prop.strata(tier) if s.name == stratum_name][0]
    out: Dict[str, Any] = {"runs": 0, "viols": [], "counters": {}, "fired": {}, "digests": [],
                           "sigs": [], "nontrivial": [], "sim_time": 0.0,
                           "samples": [], "resamples": 0, "resample_mismatch": [], "errors": [], "steps": 0}
    per_key: Dict[str, int] = {}
    executed: List[int] = []          # what this process has executed so far, re-executions included
    for pos, i in enumerate(indices):
        before = list(executed)
        executed.append(i)
        faulthandler.dump_traceback_later(600, exit=True)       # per scenario (re-armed), not per chunk
        try:
            scn = make_scenario(prop, stratum, master, i)
            run, viols, counters = run_scenario(prop, scn)
        except Exception:
            out["errors"].append("stratum %s index %d: %s" % (stratum_name, i, traceback.format_exc()[-1500:]))
            if len(out["errors"]) > 3:
                break
            continue
        out["runs"] += 1
        out["steps"] += len(scn.get("steps", []))
        out["sim_time"] += getattr(run, "mono_end", 0.0)
        for k, n in counters.items():
            out["counters"][k] = out["counters"].get(k, 0) + n
        fired = getattr(run, "fired", None)
        if fired is None and getattr(run, "sim", None) is not None:
            fired = run.sim.fired
        for k, n in (fired or {}).items():
            out["fired"][k] = out["fired"].get(k, 0) + n
        _setbit(out["digests"], run.digest)
        _setbit(out["sigs"], run.sig + "0000")
        judged = sum(n for k, n in counters.items() if k.startswith("judged"))
        if judged and (len(scn.get("steps", [])) >= 2 or fired):
            _setbit(out["nontrivial"], run.digest)
        if len(out["samples"]) < 1:
            out["samples"].append(scn)
        for key, msg in viols:
            if per_key.get(key, 0) < 2:
                per_key[key] = per_key.get(key, 0) + 1
                # (what this process had executed before: needed only if the violation turns out to depend on it)
                out["viols"].append((key, msg, scn, (stratum_name, before)))
        if resample_every and out["runs"] % resample_every == 1:
            run2 = execute(copy.deepcopy(scn))
            executed.append(i)
            out["resamples"] += 1
            if run2.digest != run.digest:
                out["resample_mismatch"].append((stratum_name, i))
    faulthandler.cancel_dump_traceback_later()
    return out


# ------------------------------------------------------------- known findings


def load_known() -> List[Dict[str, str]]:
    path = os.path.join(VERIF, "known_findings.txt")
    out = []
    if not os.path.exists(path):
        return out
    for line in open(path):
        line = line.strip()
        if not line or line.startswith("#"):
            continue
        status, _, rest = line.partition(":")
        fields = dict(tok.split("=", 1) for tok in rest.split() if "=" in tok and tok.split("=")[0] in ("property", "key"))
        out.append({"status": status.strip(), "property": fields.get("property", ""), "key": fields.get("key", ""),
                    "text": rest.strip()})
    return out


def known_open(pid: str, key: str) -> Optional[Dict[str, str]]:
    for k in load_known():
        if k["status"] == "open" and k["property"] == pid and k["key"] and key.startswith(k["key"]):
            return k
    return None


# ------------------------------------------------------------------ minimiser


def reproduces(prop: Prop, scn: Dict[str, Any], key: str) -> bool:
    try:
        _, viols, _ = run_isolated(prop, scn)
    except Exception:
        return False
    return any(k == key for k, _ in viols)


def minimise(prop: Prop, scn: Dict[str, Any], key: str, budget: int = 400, wall_cap: float = 240.0) -> Dict[str, Any]:
    best = copy.deepcopy(scn)
    tries = [0]
    deadline = time.time() + wall_cap

    def ok(cand) -> bool:
        if tries[0] >= budget or time.time() > deadline:
            return False
        tries[0] += 1
        return reproduces(prop, cand, key)

    # 0. ddmin over the prelude (scenarios the process had run before), if there is one
    pre = best.get("prelude") or []
    from_prelude = len(pre)
    n = 2
    while pre and tries[0] < budget and time.time() < deadline:
        chunk = max(1, len(pre) // n)
        reduced = False
        for start in range(0, len(pre), chunk):
            cand = copy.deepcopy(best)
            cand["prelude"] = pre[:start] + pre[start + chunk:]
            if ok(cand):
                best = cand
                pre = best["prelude"]
                n = max(n - 1, 2)
                reduced = True
                break
        if not reduced:
            if chunk == 1:
                break
            n = min(n * 2, len(pre))
    if "prelude" in best and not best["prelude"]:
        del best["prelude"]
    for pi in range(len(best.get("prelude", []))):
        # ... and each remaining prelude scenario's steps
        psteps = best["prelude"][pi]["steps"]
        n = 2
        while len(psteps) >= 2 and tries[0] < budget and time.time() < deadline:
            chunk = max(1, len(psteps) // n)
            reduced = False
            for start in range(0, len(psteps), chunk):
                cand = copy.deepcopy(best)
                cand["prelude"][pi]["steps"] = psteps[:start] + psteps[start + chunk:]
                if cand["prelude"][pi]["steps"] and ok(cand):
                    best = cand
                    psteps = best["prelude"][pi]["steps"]
                    n = max(n - 1, 2)
                    reduced = True
                    break
            if not reduced:
                if chunk == 1:
                    break
                n = min(n * 2, len(psteps))
    # 1. ddmin over steps
    n = 2
    steps = best["steps"]
    while len(steps) >= 2 and tries[0] < budget:
        chunk = max(1, len(steps) // n)
        reduced = False
        for start in range(0, len(steps), chunk):
            cand = copy.deepcopy(best)
            cand["steps"] = steps[:start] + steps[start + chunk:]
            if cand["steps"] and ok(cand):
                best = cand
                steps = best["steps"]
                n = max(n - 1, 2)
                reduced = True
                break
        if not reduced:
            if chunk == 1:
                break
            n = min(n * 2, len(steps))
    # 2. per-step simplification
    for idx in range(len(best["steps"])):
        for field in ("replies", "sends", "gap", "jump_during", "delay", "dup", "cb_raise"):
            if field in best["steps"][idx]:
                cand = copy.deepcopy(best)
                del cand["steps"][idx][field]
                if ok(cand):
                    best = cand
    # 3. configuration simplification
    cfg = best.get("config", {})
    for field, simple in (("tz", "UTC"), ("epoch0", 1_600_000_000.0), ("sched", 0)):
        if field in cfg and cfg[field] != simple:
            cand = copy.deepcopy(best)
            cand["config"][field] = simple
            if ok(cand):
                best = cand
    if len(cfg.get("clients", [])) > 1:
        used = {s.get("client", 0) for s in best["steps"]}
        if used == {0}:
            cand = copy.deepcopy(best)
            cand["config"]["clients"] = cand["config"]["clients"][:1]
            if ok(cand):
                best = cand
    best["minimised"] = {"candidate_runs": tries[0], "from_steps": len(scn["steps"]), "to_steps": len(best["steps"])}
    if from_prelude:
        best["minimised"]["from_prelude_scenarios"] = from_prelude
        best["minimised"]["to_prelude_scenarios"] = len(best.get("prelude", []))
    return best


def reproduces_fresh(pid: str, scn: Dict[str, Any], key: str, path: str) -> bool:
    tmp = path + ".cand"
    with open(tmp, "w") as fh:
        json.dump(scn, fh)
    try:
        rr = replay_in_fresh_interpreter(pid, tmp)
        return key in rr.get("keys", [])
    except Exception:
        return False
    finally:
        try:
            os.unlink(tmp)
        except OSError:
            pass


def minimise_fresh(pid: str, scn: Dict[str, Any], key: str, path: str, budget: int = 30) -> Dict[str, Any]:
    best = copy.deepcopy(scn)
    tries = 0
    n = 2
    steps = best["steps"]
    while len(steps) >= 2 and tries < budget:
        chunk = max(1, len(steps) // n)
        reduced = False
        for start in range(0, len(steps), chunk):
            if tries >= budget:
                break
            cand = copy.deepcopy(best)
            cand["steps"] = steps[:start] + steps[start + chunk:]
            tries += 1
            if cand["steps"] and reproduces_fresh(pid, cand, key, path):
                best = cand
                steps = best["steps"]
                n = max(n - 1, 2)
                reduced = True
                break
        if not reduced:
            if chunk == 1:
                break
            n = min(n * 2, len(steps))
    best["minimised"] = {"candidate_runs": tries, "from_steps": len(scn["steps"]), "to_steps": len(best["steps"]),
                         "mode": "fresh interpreter per candidate"}
    return best


def replay_in_fresh_interpreter(pid: str, path: str) -> Dict[str, Any]:
    env = dict(os.environ)
    env["PYTHONHASHSEED"] = os.environ.get("PYTHONHASHSEED", "0")     # same hash seed as the batch: exact replay
    env.pop("VERIF_REEXEC", None)
    p = subprocess.run([sys.executable, os.path.join(VERIF, "check"), pid, "--replay", path, "--json"],
                       capture_output=True, text=True, env=env, timeout=300)
    for line in p.stdout.splitlines():
        if line.startswith("{"):
            return json.loads(line)
    raise RuntimeError("replay produced no result: rc=%s out=%s err=%s" % (p.returncode, p.stdout[-500:], p.stderr[-800:]))


# ------------------------------------------------------------------- the batch


def run_check(pid: str, tier: str, master: int) -> int:
    t0 = time.time()
    prop = registry()[pid]
    strata = prop.strata(tier)
    workers = int(os.environ.get("VERIF_WORKERS", "16"))
    budget_s = float(os.environ.get("VERIF_BUDGET_S", "120" if tier == "quick" else "3000"))
    print("check %s tier=%s VERIF_SEED=%d workers=%d" % (pid, tier, master, workers), flush=True)
    jobs = []
    for s in strata:
        idx = list(range(s.count))
        if s.systematic:
            random.Random(item_seed(master, pid, s.name, -1)).shuffle(idx)
        chunk = max(20, min(400, s.count // 64 or 1))        # (a function of the stratum only, never of the worker count)
        for a in range(0, len(idx), chunk):
            jobs.append((pid, tier, master, s.name, idx[a:a + chunk], 50))
    agg: Dict[str, Any] = {"runs": 0, "viols": [], "counters": {}, "fired": {}, "sim_time": 0.0, "samples": {},
                           "resamples": 0, "resample_mismatch": [], "errors": [], "steps": 0,
                           "per_stratum": {s.name: 0 for s in strata}}
    bms = {k: bytearray(BITS // 8) for k in ("digests", "sigs", "nontrivial")}
    stopped_early = False
    ctx = mp.get_context("fork")
    with cf.ProcessPoolExecutor(max_workers=workers, mp_context=ctx) as ex:
        futs = {ex.submit(_work, j): j for j in jobs}
        try:
            for f in cf.as_completed(futs, timeout=budget_s * 3 + 600):
                j = futs[f]
                try:
                    r = f.result()
                except cf.CancelledError:
                    continue              # cancelled by us after the budget ran out (stopped_early is set)
                except Exception as e:
                    agg["errors"].append("worker failed on stratum %s: %r" % (j[3], e))
                    continue
                agg["runs"] += r["runs"]
                agg["steps"] += r["steps"]
                agg["per_stratum"][j[3]] += r["runs"]
                agg["sim_time"] += r["sim_time"]
                agg["resamples"] += r["resamples"]
                agg["resample_mismatch"] += r["resample_mismatch"]
                agg["errors"] += r["errors"]
                agg["viols"] += r["viols"]
                for k, n in r["counters"].items():
                    agg["counters"][k] = agg["counters"].get(k, 0) + n
                for k, n in r["fired"].items():
                    agg["fired"][k] = agg["fired"].get(k, 0) + n
                for s in r["samples"]:
                    agg["samples"].setdefault(j[3], s)
                for k in bms:
                    bm = bms[k]
                    for n in r[k]:
                        bm[n >> 3] |= 1 << (n & 7)
                if time.time() - t0 > budget_s and not stopped_early:
                    stopped_early = True
                    for g in futs:
                        g.cancel()
        except cf.TimeoutError:
            agg["errors"].append("batch timed out")
    harness_error = bool(agg["errors"])
    # An in-place re-execution that differs is either the harness's fault (a forgotten source of nondeterminism) or
    # the code under test keeping state between runs in one process.  Tell them apart: executed twice, each time in
    # a process that has run nothing else, the scenario must give one and the same event log.
    nondeterministic = False
    state_between_runs = 0
    for sname, i in agg["resample_mismatch"][:3]:
        try:
            sc = make_scenario(prop, [x for x in strata if x.name == sname][0], master, i)
            d1 = run_isolated(prop, copy.deepcopy(sc))[0].digest
            d2 = run_isolated(prop, copy.deepcopy(sc))[0].digest
        except Exception as e:  # noqa
            agg["errors"].append("re-execution of %s/%d failed: %r" % (sname, i, e))
            harness_error = True
            continue
        if d1 != d2:
            nondeterministic = True
        else:
            state_between_runs += 1
    if state_between_runs:
        print("NOTE: %d re-executions inside a worker differed from their first execution while isolated executions "
              "agree: the code under test keeps state between runs in one process" % len(agg["resample_mismatch"]))
    # ---- violations: minimise, write replay, verify, report
    by_key: Dict[str, List[tuple]] = {}
    for key, msg, scn, hist in agg["viols"]:
        by_key.setdefault(key, []).append((msg, scn, hist))
    strata_by_name = {s.name: s for s in strata}
    lifetime_state: List[str] = []
    mini_deadline = time.time() + float(os.environ.get("VERIF_MINIMISE_S", "300"))
    new_violation = False
    cross_run_state: List[str] = []
    known_matched = []
    reported = []
    replay_dir = os.environ.get("VERIF_REPLAY_DIR") or os.path.join(VERIF, "replays")
    os.makedirs(replay_dir, exist_ok=True)
    for key in sorted(by_key)[:12]:
        kf = known_open(pid, key)
        # 1. a scenario that shows the violation in a process that has run nothing else
        start = None
        cands = sorted(by_key[key], key=lambda ms: len(ms[1]["steps"]))
        # (scenarios that were the first of their process cannot have depended on earlier ones: try those first)
        firsts = [c for c in cands if not c[2][1]]
        for msg, scn, hist in firsts[:2] + [c for c in cands if c[2][1]][:3]:
            if reproduces(prop, scn, key):
                start = scn
                break
        if start is None:
            # 2. the violation needs what the process had done before (state the code under test keeps for the
            #    lifetime of a process): replay = the chunk's earlier scenarios as a prelude + the scenario
            for msg, scn, hist in sorted((c for c in by_key[key] if c[2][1]), key=lambda ms: len(ms[2][1]))[:3]:
                st = strata_by_name[hist[0]]
                comp = copy.deepcopy(scn)
                comp["prelude"] = [make_scenario(prop, st, master, i) for i in hist[1]]
                if comp["prelude"] and reproduces(prop, comp, key):
                    start = comp
                    lifetime_state.append(key)
                    break
        if start is None:
            msg, scn, hist = cands[0]
            start = scn
        small = minimise(prop, start, key, wall_cap=max(15.0, min(90.0, mini_deadline - time.time())))
        if "prelude" in small:
            small["note"] = ("the violation depends on state the code under test keeps for the lifetime of a process: "
                             "the prelude holds the scenarios the same process had executed before")
        small["expect"] = {"property": pid, "key": key, "message": msg}
        blob = json.dumps(small, sort_keys=True, indent=1)
        name = "%s-%d-%s.json" % (pid, master, hashlib.sha256(key.encode()).hexdigest()[:10])
        path = os.path.join(replay_dir, name)
        with open(path, "w") as fh:
            fh.write(blob)
        try:
            rr = replay_in_fresh_interpreter(pid, path)
            same = key in rr.get("keys", [])
        except Exception as e:
            same = False
            agg["errors"].append("replay of %s failed: %r" % (path, e))
        if not same:
            # The violation may depend on state the code under test keeps ACROSS runs in one process (a module-level
            # cache, say), which in-process minimisation silently relies on.  Fall back to scenarios as generated,
            # judged in a fresh interpreter each, and minimise there (slowly, small budget).
            fresh = None
            for _, cand, _h in sorted(by_key[key], key=lambda ms: -len(ms[1]["steps"]))[:8]:
                if reproduces_fresh(pid, cand, key, path):
                    fresh = cand
                    break
            if fresh is None:
                harness_error = True
                print("HARNESS-ERROR: replay of %s did not reproduce key %s" % (path, key))
                continue
            small = minimise_fresh(pid, fresh, key, path)
            small["expect"] = {"property": pid, "key": key, "message": msg}
            small["note"] = "depends on state kept across runs in one process: minimised with one fresh interpreter per candidate"
            with open(path, "w") as fh:
                fh.write(json.dumps(small, sort_keys=True, indent=1))
            cross_run_state.append(key)
        if kf:
            known_matched.append(key)
            print("KNOWN-FINDING: property=%s %s (key=%s replay=%s)" % (pid, kf["text"], key, path))
        else:
            new_violation = True
            print("VIOLATION property=%s replay=%s" % (pid, path))
            print("  key: %s" % key)
            print("  what: %s" % msg[:400])
            print("  minimised: %s" % json.dumps(small.get("minimised")))
        reported.append({"key": key, "message": msg[:300], "replay": path, "known": bool(kf)})
    if len(by_key) > 12:
        print("  (%d further violation keys not minimised)" % (len(by_key) - 12))
    # ---- a run that judged nothing has decided nothing (e.g. the code under test bypasses every seam the oracles read)
    judged_total = sum(n for k, n in agg["counters"].items() if k.startswith("judged"))
    if agg["runs"] >= 200 and judged_total == 0 and not stopped_early:
        harness_error = True
        print("HARNESS-ERROR: %d runs but not one judged observation: the check cannot see what this code does" % agg["runs"])
    # ---- probes
    missing = [p for p in prop.required_probes if not any(k == p or k.startswith(p) for k in agg["counters"])]
    if tier == "thorough" and missing and not stopped_early:
        harness_error = True
        print("HARNESS-ERROR: under-exploration, probes never hit: %s" % missing)
    # ---- evidence
    wall = time.time() - t0
    distinct = _popcount(bytes(bms["nontrivial"]))
    ev = {
        "property_id": pid, "tier": tier, "seed": master, "level": prop.level, "wall_s": round(wall, 2),
        "violations": sum(1 for r in reported if not r["known"]),
        "assumptions": prop.assumptions + [
            "fake socket layer behaves like Linux for the calls asyncio makes (narrowed by selftest-fidelity)",
            "CPython 3.12 asyncio internals (selector transports, StreamReader) are the real ones and trusted",
            "reference codecs/layouts in /verif/refs are a faithful copy of the protocol at the pinned commit"],
        "coverage": {
            "evaluations": agg["runs"],
            "distinct_nontrivial": max(distinct, 0),
            "rule": prop.rule + " | distinct = number of distinct event-log digests (sha256 of every socket call, "
                    "network event, operation and callback, bucketed into a 2^27-bit map, so a lower bound) among runs "
                    "with at least one judged observation and (>=2 steps or >=1 fault fired)",
            "samples": [agg["samples"][k] for k in sorted(agg["samples"])][:3],
            "exhaustive": False,
            "per_stratum_runs": agg["per_stratum"],
            "systematic_strata_complete": {s.name: (agg["per_stratum"][s.name] >= s.count) for s in strata if s.systematic},
            "steps_executed": agg["steps"],
            "runs_per_hour": int(agg["runs"] / wall * 3600) if wall > 0 else 0,
            "seeds": "VERIF_SEED=%d; run i of stratum s uses sha256(seed/property/s/i)" % master,
            "sim_time_covered_s": round(agg["sim_time"], 1),
            "faults_fired": dict(sorted(agg["fired"].items())),
            "distinct_event_log_digests": _popcount(bytes(bms["digests"])),
            "distinct_schedule_signatures": _popcount(bytes(bms["sigs"])),
            "observations": dict(sorted(agg["counters"].items())),
            "real_vs_stub": prop.real_vs_stub,
            "determinism_resamples": agg["resamples"],
            "determinism_mismatches": len(agg["resample_mismatch"]) if nondeterministic else 0,
            "reexecutions_differing_through_process_lifetime_state": len(agg["resample_mismatch"]) if not nondeterministic else 0,
            "violations_needing_a_prelude": lifetime_state,
            "known_findings_matched": known_matched,
            "reported": reported,
            "stopped_early_on_budget": stopped_early,
            "harness_errors": agg["errors"][:5],
        },
    }
    if not os.environ.get("VERIF_NO_EVIDENCE"):
        os.makedirs(os.path.join(VERIF, "evidence"), exist_ok=True)
        with open(os.path.join(VERIF, "evidence", pid + ".json"), "w") as fh:
            json.dump(ev, fh, indent=1, sort_keys=True, default=str)
    print("runs=%d distinct_nontrivial=%d sim_time=%.0fs wall=%.1fs faults=%s" % (
        agg["runs"], distinct, agg["sim_time"], wall, json.dumps(dict(sorted(agg["fired"].items())))), flush=True)
    for e in agg["errors"][:5]:
        print("HARNESS-ERROR: %s" % e)
    if nondeterministic:
        print("HARNESS-ERROR: nondeterministic runs: %s" % agg["resample_mismatch"][:5])
    if new_violation:
        return 1
    if harness_error or nondeterministic:
        return 2
    print("OK property=%s held on everything explored" % pid)
    return 0


def replay(pid: str, path: str, as_json: bool) -> int:
    prop = registry()[pid]
    scn = json.load(open(path))
    run, viols, counters = run_scenario(prop, scn)
    keys = sorted({k for k, _ in viols})
    if as_json:
        print(json.dumps({"keys": keys, "digest": run.digest}))
        return 1 if keys else 0
    print("replay %s: digest %s" % (path, run.digest))
    rc = 0
    for k, m in viols:
        kf = known_open(pid, k)
        if kf:
            print("KNOWN-FINDING: property=%s %s" % (pid, kf["text"]))
        else:
            rc = 1
            print("VIOLATION property=%s replay=%s" % (pid, path))
            print("  key: %s\n  what: %s" % (k, m[:600]))
    if not viols:
        print("no violation")
    return rc
