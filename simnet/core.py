"""simnet core: virtual clock, discrete-event queue, fake selector, fake sockets,
fake host network, and the asyncio loop that runs over them.

Everything nondeterministic that aioswitcher can observe goes through this
module.  The real asyncio SelectorEventLoop, its stream/datagram transports and
the unmodified aioswitcher code run on top of it.
"""
from __future__ import annotations

import asyncio
import errno
import hashlib
import heapq
import os
import random
import selectors
import socket as _real_socket
import time as _real_time
import types
from typing import Any, Callable, Dict, List, Optional, Tuple

US = 1_000_000


import contextvars

# which simulated client's task is running (task-local, inherited by child tasks): sockets created by library code
# are attributed to it even if connect() yields before creating them
TAG: "contextvars.ContextVar[Any]" = contextvars.ContextVar("sim_tag", default=None)


class SimDeadlock(Exception):
    """Nothing is runnable, nothing is pending and the loop waits forever."""


class SimCapExceeded(Exception):
    """A per-run bound was exceeded (harness error, not a finding)."""


class HarnessError(Exception):
    pass


# --------------------------------------------------------------------------- sim


class Sim:
    """Per-run simulator state: clocks, event queue, log, PRNG, fake network."""

    MAX_SELECTS = 20000

    def __init__(self, sched: int, epoch0: float = 1_600_000_000.0, tz: Optional[str] = None):
        self.mono_us = 0
        self.epoch0_ns = int(round(epoch0 * 1e9))
        self.skew_ns = 0
        self.seq = 0
        self.events: List[Tuple[int, int, Callable[[], None]]] = []
        self.log: List[tuple] = []
        self.rng = random.Random(sched)
        self.socks: Dict[int, "FakeSocket"] = {}
        self.next_fd = 100000
        self.net = SimNet(self)
        self.selects = 0
        self.traveller = None
        self.tz = tz
        self.fired: Dict[str, int] = {}
        self.sig: List[str] = []
        self.ephemeral = 40000
        self.next_tag: Any = None
        self.current_owner: Any = None
        self.tick_ns = 0
        self.clock_reads = 0
        self.clock_log: List[float] = []
        self.harness_fault: Optional[str] = None
        self.iteration_hooks: List[Callable[[], None]] = []
        self.wall_watchers: List[Callable[[], None]] = []
        self.app_reads: List[tuple] = []
        self.exc_handler_calls: List[dict] = []

    # -- clocks
    def mono(self) -> float:
        return self.mono_us / US

    def wall_ns(self) -> int:
        return self.epoch0_ns + self.mono_us * 1000 + self.skew_ns

    def wall(self) -> float:
        return self.wall_ns() / 1e9

    def sync_wall(self) -> None:
        if self.traveller is not None:
            self.traveller._destination_timestamp_ns = self.wall_ns()

    def wall_jump(self, seconds: float) -> None:
        for w in self.wall_watchers:
            w()                      # the reading just before the step
        self.skew_ns += int(round(seconds * 1e9))
        self.fire("wall_jump")
        self.rec("wall_jump", seconds)
        self.sync_wall()
        for w in self.wall_watchers:
            w()

    # -- log
    def rec(self, *item: Any) -> None:
        self.seq += 1
        self.log.append((self.seq, self.mono_us) + item)

    def mark(self, actor: str, kind: str) -> None:
        self.sig.append(actor + ":" + kind)

    def fire(self, kind: str, n: int = 1) -> None:
        self.fired[kind] = self.fired.get(kind, 0) + n

    def digest(self) -> str:
        h = hashlib.sha256()
        for item in self.log:
            h.update(repr(item).encode())
            h.update(b"\n")
        return h.hexdigest()

    def schedule_signature(self) -> str:
        return hashlib.sha256("|".join(self.sig).encode()).hexdigest()[:16]

    # -- events
    def at(self, delay_s: float, fn: Callable[[], None]) -> None:
        when = self.mono_us + max(0, int(round(delay_s * US)))
        self.seq += 1
        heapq.heappush(self.events, (when, self.seq, fn))

    def next_event_us(self) -> Optional[int]:
        return self.events[0][0] if self.events else None

    def run_due(self) -> None:
        while self.events and self.events[0][0] <= self.mono_us:
            _, _, fn = heapq.heappop(self.events)
            fn()

    def advance_to(self, when_us: int) -> None:
        if when_us > self.mono_us:
            self.mono_us = when_us
            self.sync_wall()

    def new_fd(self) -> int:
        self.next_fd += 1
        return self.next_fd


# ---------------------------------------------------------------------- selector


class SimSelector(selectors._BaseSelectorImpl):
    """The only place virtual time advances."""

    def __init__(self, sim: Sim):
        super().__init__()
        self.sim = sim

    def select(self, timeout=None):
        sim = self.sim
        sim.selects += 1
        if sim.selects > sim.MAX_SELECTS:
            raise SimCapExceeded("select() cap exceeded")
        for hook in sim.iteration_hooks:
            hook()                      # invariants sampled once per loop iteration, between callbacks
        while True:
            sim.run_due()
            ready = []
            for key in list(self._fd_to_key.values()):
                fs = sim.socks.get(key.fd)
                if fs is None:
                    continue  # real fd (loop self-pipe): never ready
                ev = 0
                if key.events & selectors.EVENT_READ and fs._readable():
                    ev |= selectors.EVENT_READ
                if key.events & selectors.EVENT_WRITE and fs._writable():
                    ev |= selectors.EVENT_WRITE
                if ev:
                    ready.append((key, ev))
            if ready:
                if len(ready) > 1:
                    ready.sort(key=lambda kv: kv[0].fd)
                    sim.rng.shuffle(ready)
                    sim.fire("ready_shuffle")
                for key, ev in ready:
                    sim.mark("fd%d" % (key.fd - 100000), "r" if ev & 1 else "w")
                return ready
            if timeout is not None and timeout <= 0:
                return []
            nxt = sim.next_event_us()
            if timeout is None:
                if nxt is None:
                    raise SimDeadlock("loop idle forever: nothing ready, nothing pending")
                sim.advance_to(nxt)
            else:
                deadline = sim.mono_us + int(-(-timeout * US // 1))
                if nxt is None or nxt > deadline:
                    sim.advance_to(deadline)
                    return []
                sim.advance_to(nxt)


# ------------------------------------------------------------------------- loop


class SimLoop(asyncio.SelectorEventLoop):
    def __init__(self, sim: Sim):
        self._sim = sim
        super().__init__(selector=SimSelector(sim))
        self._clock_resolution = 1e-6

    def time(self) -> float:
        return self._sim.mono_us / US


# ---------------------------------------------------------------------- sockets


class FakeSocket:
    """Implements exactly what asyncio's selector transports call."""

    def __init__(self, family=_real_socket.AF_INET, type=_real_socket.SOCK_STREAM, proto=0, fileno=None):
        sim = CURRENT.sim
        if sim is None:
            raise HarnessError("FakeSocket created outside a simulation run")
        self.sim: Sim = sim
        self.family = family
        self.type = type
        self.proto = proto if proto else (
            _real_socket.IPPROTO_TCP if type == _real_socket.SOCK_STREAM else _real_socket.IPPROTO_UDP)
        self.fd = sim.new_fd()
        sim.socks[self.fd] = self
        self.closed = False
        self.opts: Dict[Tuple[int, int], int] = {}
        self.local: Optional[Tuple[str, int]] = None
        self.peer: Optional[Tuple[str, int]] = None
        self.owner = "app"       # "app" sockets are created by code under test
        self.owner_id = sim.current_owner   # which simulated actor's call is in progress (e.g. ("bridge", 1))
        self.tag = sim.next_tag if sim.next_tag is not None else TAG.get()   # which simulated client asked for it
        sim.next_tag = None
        if self.tag is not None:
            self.tag.on_socket(self)
        # TCP state
        self.conn: Optional["TcpConn"] = None
        self.connecting = False
        self.so_error = 0
        # UDP state
        self.rxq: List[Tuple[bytes, Tuple[str, int], Any]] = []
        self.rx_errors: List[OSError] = []
        self.bound_port: Optional[int] = None
        sim.rec("sock", self.fd, "open", "tcp" if type == _real_socket.SOCK_STREAM else "udp")

    # -- generic
    def setblocking(self, flag):
        pass

    def gettimeout(self):
        return 0.0

    def settimeout(self, t):
        pass

    def fileno(self):
        return -1 if self.closed else self.fd

    def setsockopt(self, level, opt, value):
        self.opts[(level, opt)] = value
        self.sim.rec("sock", self.fd, "setsockopt", level, opt, value)

    def getsockopt(self, level, opt, *a):
        if level == _real_socket.SOL_SOCKET and opt == _real_socket.SO_ERROR:
            err, self.so_error = self.so_error, 0
            return err
        return self.opts.get((level, opt), 0)

    def getsockname(self):
        return self.local or ("0.0.0.0", 0)

    def getpeername(self):
        if self.peer is None:
            raise OSError(errno.ENOTCONN, "Transport endpoint is not connected")
        return self.peer

    def _check_open(self):
        if self.closed:
            raise OSError(errno.EBADF, "Bad file descriptor")

    def close(self):
        if self.closed:
            return
        self.sim.rec("sock", self.fd, "close")
        self.closed = True
        self.sim.socks.pop(self.fd, None)
        if self.bound_port is not None:
            self.sim.net.udp_unbind(self)
        if self.conn is not None:
            self.conn.client_closed()

    def detach(self):
        self.closed = True
        return self.fd

    def shutdown(self, how):
        self._check_open()
        self.sim.rec("sock", self.fd, "shutdown", how)
        if self.conn is not None and how in (_real_socket.SHUT_WR, _real_socket.SHUT_RDWR):
            self.conn.client_shutdown_wr()

    def __enter__(self):
        return self

    def __exit__(self, *a):
        self.close()

    # -- readiness, asked by the selector
    def _readable(self) -> bool:
        if self.type == _real_socket.SOCK_DGRAM:
            return bool(self.rxq or self.rx_errors)
        c = self.conn
        return c is not None and c.established and (bool(c.rx) or c.rx_fin or c.rx_rst)

    def _writable(self) -> bool:
        if self.type == _real_socket.SOCK_DGRAM:
            return True
        if self.connecting:
            return False
        c = self.conn
        if c is None:
            return self.so_error != 0
        return c.established and self.sim.mono_us >= c.stall_until_us

    # -- UDP
    def bind(self, addr):
        self._check_open()
        host, port = addr[0], addr[1]
        if not isinstance(port, int) or not 0 <= port <= 65535:
            raise OverflowError("bind(): port must be 0-65535.")
        if self.type == _real_socket.SOCK_DGRAM:
            self.sim.net.udp_bind(self, host, port)
        self.local = (host, port)
        self.sim.rec("sock", self.fd, "bind", host, port)

    def recvfrom(self, n):
        self._check_open()
        if self.rx_errors:
            e = self.rx_errors.pop(0)
            self.sim.fire("udp_sockerr")
            self.sim.rec("sock", self.fd, "recvfrom", "error", e.errno)
            raise e
        if not self.rxq:
            raise BlockingIOError(errno.EAGAIN, "would block")
        data, addr, tag = self.rxq.pop(0)
        self.sim.rec("sock", self.fd, "recvfrom", len(data), tag)
        self.sim.net.udp_taken(self, tag)
        return data[:n], addr

    def sendto(self, data, addr=None):
        self._check_open()
        self.sim.rec("sock", self.fd, "sendto", bytes(data).hex(), addr)
        return len(data)

    # -- TCP
    def connect(self, addr):
        self._check_open()
        if self.type != _real_socket.SOCK_STREAM:
            self.peer = (addr[0], addr[1])
            return
        self.sim.rec("sock", self.fd, "connect", addr[0], addr[1])
        self.sim.net.tcp_connect(self, addr[0], addr[1])
        raise BlockingIOError(errno.EINPROGRESS, "in progress")

    def connect_ex(self, addr):
        try:
            self.connect(addr)
        except BlockingIOError:
            return errno.EINPROGRESS
        return 0

    def _tx(self, bufs: List[bytes]) -> int:
        self._check_open()
        c = self.conn
        if c is None or not c.established:
            raise OSError(errno.ENOTCONN, "not connected")
        return c.client_send(bufs)

    def send(self, data, flags=0):
        return self._tx([bytes(data)])

    def sendmsg(self, buffers, ancdata=(), flags=0, address=None):
        return self._tx([bytes(b) for b in buffers])

    def sendall(self, data, flags=0):
        raise HarnessError("sendall on a non-blocking fake socket")

    def recv(self, n, flags=0):
        self._check_open()
        c = self.conn
        if c is None:
            raise OSError(errno.ENOTCONN, "not connected")
        return c.client_recv(n)

    def recv_into(self, buf, nbytes=0, flags=0):
        data = self.recv(nbytes or len(buf))
        buf[: len(data)] = data
        return len(data)


class _Current:
    sim: Optional[Sim] = None


CURRENT = _Current()


class SocketShim(types.ModuleType):
    """Stands in for the `socket` module inside asyncio.base_events."""

    def __init__(self):
        super().__init__("socket")
        self.socket = FakeSocket

    def __getattr__(self, name):
        return getattr(_real_socket, name)


# ---------------------------------------------------------------------- network


class Unit:
    """One application write as seen at the socket layer."""

    __slots__ = ("data", "acc", "idx")

    def __init__(self, data: bytes, idx: int):
        self.data = data
        self.acc = 0
        self.idx = idx


class TcpConn:
    """One TCP connection between a client FakeSocket and a device model."""

    def __init__(self, net: "SimNet", sock: FakeSocket, listener: "Listener", cid: int):
        self.net = net
        self.sim = net.sim
        self.sock = sock
        self.listener = listener
        self.cid = cid
        self.established = False
        # device -> client
        self.rx = bytearray()
        self.rx_fin = False
        self.rx_rst = False
        self.rst_raised = False
        # client -> device
        self.units: List[Unit] = []
        self.client_fin = False            # device saw end-of-stream
        self.client_closed_flag = False
        self.recv_log: List[bytes] = []
        self.anomalies: List[str] = []
        self.stall_until_us = 0            # the peer's receive window is closed until then
        self.rst_errno = errno.ECONNRESET
        self.tag = sock.tag

    # ---- client side, called by FakeSocket
    def client_send(self, bufs: List[bytes]) -> int:
        sim = self.sim
        if self.rx_rst:
            sim.rec("tcp", self.cid, "send-after-rst")
            raise BrokenPipeError(errno.EPIPE, "Broken pipe")
        data = b"".join(bufs)
        pend = b"".join(u.data[u.acc:] for u in self.units if u.acc < len(u.data))
        if not data.startswith(pend):
            self.anomalies.append("re-offered bytes differ from unsent tail")
            pend = b""
        # new units, one per buffer beyond the pending tail
        consumed = len(pend)
        pos = 0
        for b in bufs:
            start = pos
            pos += len(b)
            if pos <= consumed:
                continue
            nb = b[max(0, consumed - start):]
            if nb:
                u = Unit(nb, len(self.units))
                self.units.append(u)
                sim.rec("tcp", self.cid, "write", u.idx, nb.hex())
                sim.mark("c%d" % self.cid, "write")
                if self.tag is not None:
                    self.tag.on_write(self, u)
        if sim.mono_us < self.stall_until_us:
            sim.rec("tcp", self.cid, "send", "stalled")
            raise BlockingIOError(errno.EAGAIN, "would block")
        sp = getattr(self.tag, "send_plan", None)
        plan = sp.pop(0) if sp else None
        if isinstance(plan, dict):
            # accept a prefix, then the peer stops reading for a while
            self.stall_until_us = sim.mono_us + int(plan["stall"] * US)
            sim.at(plan["stall"], lambda: None)       # so that virtual time can reach the end of the stall
            sim.fire("send_stall")
            plan = plan.get("accept")
        if plan == "block":
            sim.fire("wouldblock")
            sim.rec("tcp", self.cid, "send", "wouldblock")
            raise BlockingIOError(errno.EAGAIN, "would block")
        n = len(data)
        if isinstance(plan, int) and 0 < plan < n:
            n = plan
            sim.fire("shortwrite")
        sim.rec("tcp", self.cid, "send", n, len(data))
        left = n
        for u in self.units:
            if left == 0:
                break
            room = len(u.data) - u.acc
            if room <= 0:
                continue
            take = min(room, left)
            u.acc += take
            left -= take
            if u.acc == len(u.data):
                self.listener.unit_complete(self, u)
        return n

    def client_recv(self, n: int) -> bytes:
        sim = self.sim
        if self.rx:
            data = bytes(self.rx[:n])
            del self.rx[:n]
            sim.rec("tcp", self.cid, "recv", data.hex())
            self.recv_log.append(data)
            return data
        if self.rx_rst:
            self.rst_raised = True
            sim.rec("tcp", self.cid, "recv", "RST", self.rst_errno)
            # OSError picks the matching subclass: ConnectionResetError, TimeoutError, BrokenPipeError or plain OSError
            raise OSError(self.rst_errno, os.strerror(self.rst_errno))
        if self.rx_fin:
            sim.rec("tcp", self.cid, "recv", "EOF")
            self.recv_log.append(b"")
            return b""
        raise BlockingIOError(errno.EAGAIN, "would block")

    def client_shutdown_wr(self):
        if not self.client_fin:
            self.client_fin = True
            self.sim.rec("tcp", self.cid, "client-fin")
            self.listener.client_eof(self)

    def client_closed(self):
        self.client_closed_flag = True
        if not self.client_fin:
            self.client_fin = True
            self.sim.rec("tcp", self.cid, "client-close")
            self.listener.client_eof(self)

    # ---- device side, called by device models (through sim.at)
    def dev_send(self, data: bytes, delay: float = 0.0):
        def deliver():
            if self.client_closed_flag or self.rx_fin or self.rx_rst:
                return
            self.rx += data
            self.sim.rec("tcp", self.cid, "arrive", len(data))
        self.sim.at(delay, deliver)

    def dev_fin(self, delay: float = 0.0):
        def deliver():
            if not self.rx_rst:
                self.rx_fin = True
                self.sim.rec("tcp", self.cid, "fin")
        self.sim.at(delay, deliver)

    def dev_rst(self, delay: float = 0.0, err: int = errno.ECONNRESET):
        def deliver():
            self.rst_errno = err
            self.rx_rst = True
            self.rx.clear()
            self.sim.rec("tcp", self.cid, "rst")
        self.sim.at(delay, deliver)


class Listener:
    """Interface device models implement."""

    def accept(self, conn: TcpConn) -> None:
        pass

    def unit_complete(self, conn: TcpConn, unit: Unit) -> None:
        pass

    def client_eof(self, conn: TcpConn) -> None:
        pass


class SimNet:
    def __init__(self, sim: Sim):
        self.sim = sim
        self.listeners: Dict[Tuple[str, int], Listener] = {}
        self.conns: List[TcpConn] = []
        self.udp_ports: Dict[int, List[FakeSocket]] = {}
        self.connect_delay = 0.001
        self.arrivals: Dict[int, List[dict]] = {}    # port -> arrival records, in arrival order
        self.arrival_order: List[dict] = []
        self.rxq_limit = 64
        self.taken: List[tuple] = []

    # ---- TCP
    def listen(self, ip: str, port: int, listener: Listener):
        self.listeners[(ip, port)] = listener

    def unlisten(self, ip: str, port: int):
        self.listeners.pop((ip, port), None)

    def tcp_connect(self, sock: FakeSocket, ip: str, port: int):
        sim = self.sim
        sock.connecting = True
        plan = getattr(sock.tag, "connect_plan", None)
        delay = plan if isinstance(plan, (int, float)) else self.connect_delay

        def complete():
            sock.connecting = False
            if sock.closed:
                return
            lst = self.listeners.get((ip, port))
            if lst is None or plan == "refuse":
                sock.so_error = errno.ECONNREFUSED
                sim.fire("refuse")
                sim.rec("tcp", "refused", ip, port)
                return
            conn = TcpConn(self, sock, lst, len(self.conns))
            self.conns.append(conn)
            sock.conn = conn
            sock.peer = (ip, port)
            sim.ephemeral += 1
            sock.local = ("10.0.0.2", sim.ephemeral)
            conn.established = True
            sim.rec("tcp", conn.cid, "established", ip, port)
            if sock.tag is not None:
                sock.tag.on_connect(conn)
            lst.accept(conn)
        sim.at(delay, complete)

    # ---- UDP
    def udp_bind(self, sock: FakeSocket, host: str, port: int):
        holders = self.udp_ports.setdefault(port, [])
        if holders:
            rp = (_real_socket.SOL_SOCKET, _real_socket.SO_REUSEPORT)
            if not (sock.opts.get(rp) and all(h.opts.get(rp) for h in holders)):
                self.sim.rec("udp", "bind-refused", port)
                raise OSError(errno.EADDRINUSE, "Address already in use")
        holders.append(sock)
        sock.bound_port = port
        sock.bound_host = host

    def udp_unbind(self, sock: FakeSocket):
        port = sock.bound_port
        holders = self.udp_ports.get(port, [])
        if sock in holders:
            holders.remove(sock)
        sock.bound_port = None

    def udp_holders(self, port: int) -> List[FakeSocket]:
        return list(self.udp_ports.get(port, []))

    def udp_send(self, port: int, payload: bytes, tag: Any, delay: float = 0.0,
                 src: Tuple[str, int] = ("192.168.1.50", 20002)):
        """A datagram sent by a device model: arrives after `delay`."""
        sim = self.sim

        def arrive():
            # a device announces itself by LAN broadcast: Linux hands a broadcast datagram only to sockets bound to
            # the wildcard address (or to the broadcast address itself), never to one bound to a unicast address
            bound = self.udp_ports.get(port, [])
            holders = [h for h in bound if getattr(h, "bound_host", "0.0.0.0") in ("0.0.0.0", "", "255.255.255.255", "<broadcast>")]
            if len(holders) != len(bound):
                sim.rec("udp", "not-a-broadcast-listener", port)
            target = holders[-1] if holders else None
            overflow = False
            if target is not None and len(target.rxq) >= self.rxq_limit:
                sim.fire("rxq_overflow")
                sim.rec("udp", "overflow", port, tag)
                target = None
                overflow = True
            rec = {"tag": tag, "payload": payload, "port": port, "fd": target.fd if target else None,
                   "owner": target.owner if target else None, "owner_id": target.owner_id if target else None,
                   "mono_us": sim.mono_us, "seq": sim.seq, "overflow": overflow, "n_holders": len(holders),
                   "order": len(self.arrival_order)}
            self.arrivals.setdefault(port, []).append(rec)
            self.arrival_order.append(rec)
            sim.rec("udp", "arrive", port, tag, target.fd if target else None)
            if target is not None:
                target.rxq.append((payload, src, tag))
        sim.at(delay, arrive)

    def udp_error(self, port: int, delay: float = 0.0, err: str = "refused"):
        sim = self.sim
        code = {"refused": errno.ECONNREFUSED, "hostunreach": errno.EHOSTUNREACH, "netunreach": errno.ENETUNREACH,
                "msgsize": errno.EMSGSIZE, "perm": errno.EPERM, "netdown": errno.ENETDOWN}[err]

        def arrive():
            holders = self.udp_ports.get(port, [])
            if holders:
                holders[-1].rx_errors.append(OSError(code, os.strerror(code)))
                sim.rec("udp", "sockerr", port, err)
        sim.at(delay, arrive)

    def udp_taken(self, sock: FakeSocket, tag: Any):
        self.taken.append((sock.fd, sock.bound_port, tag))


# ------------------------------------------------------------------ run context


class SimContext:
    """Installs all seams for one run and removes them afterwards."""

    def __init__(self, sched: int, epoch0: float, tz: Optional[str], tick_ns: int = 0, tz_form: Optional[str] = None):
        self.sim = Sim(sched, epoch0, tz)
        # how the host spells its zone in TZ: "Europe/Paris", ":Europe/Paris" or ":/usr/share/zoneinfo/Europe/Paris"
        # (all three mean the same to libc)
        self.tz_form = tz_form
        self.sim.tick_ns = int(tick_ns)         # the wall clock advances this much on every read (0 = frozen between events)
        self.loop: Optional[SimLoop] = None
        self._travel = None
        self._old_tz = None
        self._shim_prev = None

    def __enter__(self) -> "SimContext":
        import asyncio.base_events as be
        sim = self.sim
        if CURRENT.sim is not None:
            raise HarnessError("nested simulation runs")
        # zone
        self._old_tz = os.environ.get("TZ")
        if sim.tz is not None:
            os.environ["TZ"] = {"colon": ":" + sim.tz, "path": ":/usr/share/zoneinfo/" + sim.tz}.get(self.tz_form, sim.tz)
            _real_time.tzset()
        # glibc's mktime keeps a hidden static guess (the UTC offset found by the previous call) that decides
        # which epoch an ambiguous local time maps to: prime it so a run does not depend on earlier runs
        _real_time.mktime((2001, 1, 1, 12, 0, 0, 0, 1, -1))
        # wall clock
        try:
            import time_machine
        except ImportError:  # pragma: no cover
            raise HarnessError("time_machine is required for the wall-clock seam")
        self._travel = time_machine.travel(sim.wall_ns() / 1e9, tick=False)
        sim.traveller = self._travel.start()
        sim.sync_wall()
        if abs(_real_time.time() - sim.wall()) > 1e-6:
            raise HarnessError("wall-clock seam inactive")
        if sim.tick_ns:
            # a clock that moves while synchronous code runs: every read returns a slightly later instant, so code
            # that reads the clock twice can see two different days
            trav = sim.traveller

            def ticking_time_ns():
                sim.clock_reads += 1
                sim.skew_ns += sim.tick_ns
                trav._destination_timestamp_ns = sim.wall_ns()
                sim.clock_log.append(trav._destination_timestamp_ns / 1e9)
                return trav._destination_timestamp_ns
            trav.time_ns = ticking_time_ns
        # loop (created before the socket shim: its self-pipe is a real socketpair)
        self.loop = SimLoop(sim)
        asyncio.set_event_loop(None)
        CURRENT.sim = sim
        self._shim_prev = be.socket
        be.socket = SocketShim()
        # a library that opens its own socket.socket(...) and hands it to asyncio would escape the simulation:
        # make that a harness fault instead of a silently unsimulated run
        self._real_socket_cls = _real_socket.socket

        def guard(*a, **k):
            sim.harness_fault = "socket.socket(%s) called directly during a simulated run" % (a,)
            raise HarnessError(sim.harness_fault)
        _real_socket.socket = guard
        self.loop.set_exception_handler(self._on_loop_exception)
        self._patch_reader()
        return self

    def _on_loop_exception(self, loop, context):
        exc = context.get("exception")
        self.sim.exc_handler_calls.append({
            "message": str(context.get("message")),
            "exception": type(exc).__name__ if exc is not None else None,
            "text": str(exc)[:200] if exc is not None else None,
            "seq": self.sim.seq, "arrived": len(self.sim.net.arrival_order), "taken": len(self.sim.net.taken),
        })
        import re
        self.sim.rec("loop-exception", type(exc).__name__ if exc is not None else None,
                     re.sub(r"[0-9a-fA-F]{6,}", "?", str(context.get("message")).split("(")[0])[:80])  # no addresses

    def _patch_reader(self):
        import asyncio.streams as st
        sim = self.sim
        self._reader_orig = {}
        for name in ("read", "readexactly", "readuntil"):
            orig = getattr(st.StreamReader, name)
            self._reader_orig[name] = orig

            def make(orig, name):
                async def wrapper(reader, *a, **k):
                    data = await orig(reader, *a, **k)
                    sock = getattr(getattr(reader, "_transport", None), "_sock", None)
                    conn = getattr(sock, "conn", None)
                    if conn is not None:
                        reader.__dict__["_verif_conn"] = conn
                    else:
                        conn = reader.__dict__.get("_verif_conn")
                    sim.rec("app-read", getattr(conn, "cid", None), name, bytes(data).hex())
                    tag = getattr(conn, "tag", None)
                    if tag is not None:
                        tag.on_app_read(conn, bytes(data))
                    return data
                return wrapper
            setattr(st.StreamReader, name, make(orig, name))

        # the same for what the application hands to StreamWriter: "every byte string the client writes"
        self._writer_orig = {}
        for name in ("write", "writelines"):
            orig = getattr(st.StreamWriter, name)
            self._writer_orig[name] = orig

            def make_w(orig, name):
                def wrapper(writer, data):
                    blob = b"".join(bytes(x) for x in data) if name == "writelines" else bytes(data)
                    sock = getattr(getattr(writer, "_transport", None), "_sock", None)
                    conn = getattr(sock, "conn", None)
                    if conn is not None:
                        writer.__dict__["_verif_conn"] = conn
                    else:
                        # the transport has let go of its socket (closed by the client itself, or lost): what the
                        # application hands to it now still belongs to the connection this writer was made for
                        conn = writer.__dict__.get("_verif_conn")
                    sim.rec("app-write", getattr(conn, "cid", None), blob.hex())
                    tag = getattr(conn, "tag", None)
                    if tag is not None:
                        tag.on_app_write(conn, blob)
                    return orig(writer, data)
                return wrapper
            setattr(st.StreamWriter, name, make_w(orig, name))

    def _unpatch_reader(self):
        import asyncio.streams as st
        for name, orig in getattr(self, "_reader_orig", {}).items():
            setattr(st.StreamReader, name, orig)
        for name, orig in getattr(self, "_writer_orig", {}).items():
            setattr(st.StreamWriter, name, orig)

    def __exit__(self, *exc):
        import asyncio.base_events as be
        be.socket = self._shim_prev
        if getattr(self, "_real_socket_cls", None) is not None:
            _real_socket.socket = self._real_socket_cls
        self._unpatch_reader()
        CURRENT.sim = None
        try:
            if self.loop is not None and not self.loop.is_closed():
                # drop whatever is left without running it
                self.loop._ready.clear()
                self.loop._scheduled.clear()
                self.loop.close()
        except Exception:
            pass
        if self._travel is not None:
            self._travel.stop()
        if self._old_tz is None:
            os.environ.pop("TZ", None)
        else:
            os.environ["TZ"] = self._old_tz
        _real_time.tzset()
        return False

    def run(self, coro):
        """Run `coro` to completion on the simulated loop; deterministic task names."""
        loop = self.loop
        task = loop.create_task(coro, name="sim-main")
        return loop.run_until_complete(task)
