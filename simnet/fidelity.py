"""Stub-fidelity probes: the same micro-scenarios over real 127.0.0.1 sockets with the stock event loop and
under simnet.  Outcomes (exception classes, flags, delivery counts) must agree.  Real time and real sockets are
used only here, never in a registered check."""
from __future__ import annotations

import asyncio
import socket
import struct
from typing import Any, Dict

from .core import CURRENT, FakeSocket, Listener, SimContext


class Proto(asyncio.DatagramProtocol):
    def __init__(self, raise_on_first=False):
        self.got = []
        self.errors = []
        self.lost = 0
        self.raise_on_first = raise_on_first

    def datagram_received(self, data, addr):
        self.got.append(data)
        if self.raise_on_first and len(self.got) == 1:
            raise RuntimeError("boom")

    def error_received(self, exc):
        self.errors.append(type(exc).__name__)

    def connection_lost(self, exc):
        self.lost += 1


def exc_name(fn_result):
    return fn_result


async def udp_double_bind(port: int) -> Dict[str, Any]:
    loop = asyncio.get_running_loop()
    t1, _ = await loop.create_datagram_endpoint(Proto, local_addr=("127.0.0.1" if port < 60000 else "0.0.0.0", port), family=socket.AF_INET)
    out: Dict[str, Any] = {}
    try:
        t2, _ = await loop.create_datagram_endpoint(Proto, local_addr=(t1.get_extra_info("sockname")[0], port), family=socket.AF_INET)
        out["second_bind"] = "ok"
        t2.close()
    except OSError as e:
        out["second_bind"] = "OSError"
        out["errno_is_addrinuse"] = e.errno == 98
    t1.close()
    await asyncio.sleep(0)
    await asyncio.sleep(0)
    try:
        t3, _ = await loop.create_datagram_endpoint(Proto, local_addr=(t1.get_extra_info("sockname")[0], port), family=socket.AF_INET)
        out["bind_after_close_and_cycle"] = "ok"
        t3.close()
    except OSError:
        out["bind_after_close_and_cycle"] = "OSError"
    await asyncio.sleep(0)
    await asyncio.sleep(0)
    return out


async def client_sees(host: str, port: int) -> Dict[str, Any]:
    """Connect, write a frame, read twice, close; report what the client saw."""
    out: Dict[str, Any] = {}
    try:
        reader, writer = await asyncio.open_connection(host=host, port=port, family=socket.AF_INET)
    except OSError as e:
        return {"connect": type(e).__name__, "is_oserror": True}
    out["connect"] = "ok"
    writer.write(b"hello")
    for i in (1, 2):
        try:
            data = await asyncio.wait_for(reader.read(1024), 5)
            out["read%d" % i] = "empty" if data == b"" else "data"
        except Exception as e:  # noqa
            out["read%d" % i] = type(e).__name__
    writer.close()
    try:
        await writer.wait_closed()
        out["wait_closed"] = "ok"
    except Exception as e:  # noqa
        out["wait_closed"] = type(e).__name__
    try:
        writer.close()
        await writer.wait_closed()
        out["second_wait_closed"] = "ok"
    except Exception as e:  # noqa
        out["second_wait_closed"] = type(e).__name__
    return out


# ------------------------------------------------------------------ real side


async def real_tcp(behaviour: str) -> Dict[str, Any]:
    async def handler(reader, writer):
        await reader.read(100)
        if behaviour == "fin":
            writer.close()
        elif behaviour == "rst":
            s = writer.get_extra_info("socket")
            s.setsockopt(socket.SOL_SOCKET, socket.SO_LINGER, struct.pack("ii", 1, 0))
            writer.transport.abort()
        elif behaviour == "reply-then-fin":
            writer.write(b"reply")
            await writer.drain()
            writer.close()
    if behaviour == "refused":
        s = socket.socket()
        s.bind(("127.0.0.1", 0))
        port = s.getsockname()[1]
        s.close()
        return await client_sees("127.0.0.1", port)
    server = await asyncio.start_server(handler, "127.0.0.1", 0, family=socket.AF_INET)
    port = server.sockets[0].getsockname()[1]
    try:
        return await client_sees("127.0.0.1", port)
    finally:
        server.close()
        await server.wait_closed()


async def real_udp_callback_exception() -> Dict[str, Any]:
    loop = asyncio.get_running_loop()
    seen = []
    loop.set_exception_handler(lambda l, c: seen.append(type(c.get("exception")).__name__))
    p = Proto(raise_on_first=True)
    t, _ = await loop.create_datagram_endpoint(lambda: p, local_addr=("127.0.0.1", 0), family=socket.AF_INET)
    port = t.get_extra_info("sockname")[1]
    s = socket.socket(socket.AF_INET, socket.SOCK_DGRAM)
    s.sendto(b"one", ("127.0.0.1", port))
    s.sendto(b"two", ("127.0.0.1", port))
    s.close()
    for _ in range(50):
        await asyncio.sleep(0.01)
        if len(p.got) == 2:
            break
    out = {"received": len(p.got), "handler_calls": seen, "closing": t.is_closing()}
    t.close()
    await asyncio.sleep(0)
    await asyncio.sleep(0)
    out["connection_lost_calls"] = p.lost
    return out


async def real_udp_sockerr() -> Dict[str, Any]:
    loop = asyncio.get_running_loop()
    s = socket.socket(socket.AF_INET, socket.SOCK_DGRAM)
    s.bind(("127.0.0.1", 0))
    dead = s.getsockname()[1]
    s.close()
    p = Proto()
    t, _ = await loop.create_datagram_endpoint(lambda: p, remote_addr=("127.0.0.1", dead), family=socket.AF_INET)
    t.sendto(b"x")
    for _ in range(50):
        await asyncio.sleep(0.01)
        if p.errors:
            break
    out = {"errors": p.errors[:1], "closing": t.is_closing()}
    t.close()
    await asyncio.sleep(0)
    return out


# ------------------------------------------------------------------- sim side


class Behave(Listener):
    def __init__(self, behaviour):
        self.behaviour = behaviour

    def unit_complete(self, conn, unit):
        if self.behaviour == "fin":
            conn.dev_fin(0.001)
        elif self.behaviour == "rst":
            conn.dev_rst(0.001)
        elif self.behaviour == "reply-then-fin":
            conn.dev_send(b"reply", 0.001)
            conn.dev_fin(0.002)


def sim_run(coro_factory):
    with SimContext(1, 1_600_000_000.0, "UTC") as ctx:
        return ctx.run(coro_factory(ctx))


def sim_tcp(behaviour: str) -> Dict[str, Any]:
    def factory(ctx):
        if behaviour != "refused":
            ctx.sim.net.listen("10.0.0.9", 9957, Behave(behaviour))
        return client_sees("10.0.0.9", 9957)
    return sim_run(factory)


def sim_udp_double_bind() -> Dict[str, Any]:
    return sim_run(lambda ctx: udp_double_bind(60002))


def sim_udp_callback_exception() -> Dict[str, Any]:
    async def go(ctx):
        loop = asyncio.get_running_loop()
        seen = []
        loop.set_exception_handler(lambda l, c: seen.append(type(c.get("exception")).__name__))
        p = Proto(raise_on_first=True)
        t, _ = await loop.create_datagram_endpoint(lambda: p, local_addr=("0.0.0.0", 60010), family=socket.AF_INET)
        ctx.sim.net.udp_send(60010, b"one", 1)
        ctx.sim.net.udp_send(60010, b"two", 2)
        await asyncio.sleep(0.5)
        out = {"received": len(p.got), "handler_calls": seen, "closing": t.is_closing()}
        t.close()
        await asyncio.sleep(0)
        await asyncio.sleep(0)
        out["connection_lost_calls"] = p.lost
        return out
    return sim_run(go)


def sim_udp_sockerr() -> Dict[str, Any]:
    async def go(ctx):
        loop = asyncio.get_running_loop()
        p = Proto()
        t, _ = await loop.create_datagram_endpoint(lambda: p, local_addr=("0.0.0.0", 60011), family=socket.AF_INET)
        ctx.sim.net.udp_error(60011, 0.001)
        await asyncio.sleep(0.5)
        out = {"errors": p.errors[:1], "closing": t.is_closing()}
        t.close()
        await asyncio.sleep(0)
        return out
    return sim_run(go)


def main() -> int:
    bad = 0
    rows = []

    def compare(name, real, sim):
        nonlocal bad
        same = real == sim
        rows.append((name, same, real, sim))
        if not same:
            bad += 1

    def real(coro):
        loop = asyncio.new_event_loop()
        try:
            return loop.run_until_complete(coro)
        finally:
            loop.close()

    s = socket.socket(socket.AF_INET, socket.SOCK_DGRAM)
    s.bind(("127.0.0.1", 0))
    free = s.getsockname()[1]
    s.close()
    compare("udp double bind / rebind after close", real(udp_double_bind(free)), sim_udp_double_bind())
    for b in ("fin", "rst", "reply-then-fin", "refused"):
        compare("tcp peer %s" % b, real(real_tcp(b)), sim_tcp(b))
    compare("udp exception in datagram_received", real(real_udp_callback_exception()), sim_udp_callback_exception())
    compare("udp socket error reaches error_received", real(real_udp_sockerr()), sim_udp_sockerr())
    for name, same, r, s_ in rows:
        print("%-45s %s\n    real: %s\n    sim:  %s" % (name, "agree" if same else "DIFFER", r, s_))
    print("selftest-fidelity: %d probes, %d disagreements" % (len(rows), bad))
    return 0 if bad == 0 else 2
