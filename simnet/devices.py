"""Executable reference models of Switcher devices on the fake network (TCP side).

Same interface as a real device (frames in, replies out), trivial inside.  A
model never refuses a badly formed frame: it answers so the run continues and
leaves judging to the oracles.
"""
from __future__ import annotations

import hashlib
import struct
from typing import Any, Dict, List, Optional

from refs import codecs, frames
from .core import Listener, Sim, TcpConn, Unit

DEFAULT_STATE = {
    "on": False, "watts": 0, "time_left": 0, "time_on": 0, "auto_off": 3600, "name": "Switcher",
    "position": 0, "direction": "0000",
    "t_on": False, "t_mode": 4, "t_target": 24, "t_fan": 1, "t_swing": 0, "t_temp10": 250, "t_remote": "ELEC7001",
}


class Exchange:
    __slots__ = ("cid", "unit_idx", "kind", "reply", "mode", "snapshot", "unit", "session", "sent")

    def __init__(self, cid, unit_idx, kind, reply, mode, snapshot, unit, session):
        self.cid = cid
        self.unit_idx = unit_idx
        self.kind = kind
        self.reply = reply
        self.mode = mode
        self.snapshot = snapshot
        self.unit = unit
        self.session = session
        self.sent = b""


class DeviceModel(Listener):
    def __init__(self, sim: Sim, cfg: Dict[str, Any], salt: int):
        self.sim = sim
        self.cfg = cfg
        self.kind = cfg["kind"]                    # heater | plug | runner | breeze
        self.ip = cfg["ip"]
        self.port = 9957 if self.kind in ("heater", "plug") else 10000
        self.state = dict(DEFAULT_STATE)
        self.state.update(cfg.get("state", {}))
        self.sched_records: List[bytes] = [bytes.fromhex(r) for r in cfg.get("schedules", [])]
        self.salt = salt
        self.logins = 0
        self.exchanges: List[Exchange] = []
        self.conns: List[TcpConn] = []
        self.eof_seen: Dict[int, bool] = {}
        self.base_delay = cfg.get("delay", 0.002)
        sim.net.listen(self.ip, self.port, self)

    # -- Listener
    def accept(self, conn: TcpConn) -> None:
        self.conns.append(conn)
        conn.session = b"\x00\x00\x00\x00"
        conn.dead = False

    def client_eof(self, conn: TcpConn) -> None:
        self.eof_seen[conn.cid] = True

    def _new_session(self, conn: TcpConn) -> bytes:
        self.logins += 1
        planned = self.cfg.get("sessions")
        if planned and self.logins <= len(planned):
            return bytes.fromhex(planned[self.logins - 1])      # explicit (special-valued) sessions from the scenario
        h = hashlib.sha256(b"%d/%d/%d" % (self.salt, conn.cid, self.logins)).digest()
        s = h[:4]
        if s == b"\x00\x00\x00\x00":
            s = b"\x01\x00\x00\x00"
        return s

    def unit_complete(self, conn: TcpConn, unit: Unit) -> None:
        sim = self.sim
        kind = frames.classify(unit.data)
        tag = conn.tag
        rp = getattr(tag, "reply_plan", None)
        spec = rp.pop(0) if rp else None
        spec = spec or {}
        mode = spec.get("mode", "ok")
        if getattr(conn, "dead", False):
            sim.rec("dev", self.ip, "unit-after-close", conn.cid, unit.idx)
            ex = Exchange(conn.cid, unit.idx, kind, b"", "dead", None, unit.data, conn.session)
            self.exchanges.append(ex)
            if tag is not None:
                tag.on_exchange(conn, ex)
            return
        reply, snap = self._reply_for(conn, kind, unit.data)
        ex = Exchange(conn.cid, unit.idx, kind, reply, mode, snap, unit.data, conn.session)
        self.exchanges.append(ex)
        if tag is not None:
            tag.on_exchange(conn, ex)
        delay = spec.get("delay", self.base_delay)
        sim.rec("dev", self.ip, "unit", conn.cid, unit.idx, kind, mode)
        sim.mark("d" + self.ip.rsplit(".", 1)[-1], kind + "/" + mode)
        if mode != "ok":
            sim.fire(mode)
        if spec.get("delay", 0) > 1.0:
            sim.fire("delay")
        if mode == "ok":
            ex.sent = reply
            conn.dev_send(reply, delay)
        elif mode == "segment":
            cuts = sorted(c for c in spec.get("cuts", [len(reply) // 2]) if 0 < c < len(reply)) or [1]
            gap = spec.get("gap", 0.01)
            prev = 0
            t = delay
            for c in cuts + [len(reply)]:
                conn.dev_send(reply[prev:c], t)
                prev = c
                t += gap
            ex.sent = reply
        elif mode == "truncate":
            n = max(1, min(spec.get("n", 1), len(reply)))
            ex.sent = reply[:n]
            conn.dev_send(reply[:n], delay)
        elif mode == "garbage":
            g = bytes.fromhex(spec["bytes"])
            ex.sent = g
            conn.dev_send(g, delay)
        elif mode == "corrupt":
            b = bytearray(reply)
            for off, val in spec.get("edits", []):
                if off < len(b):
                    b[off] = val
            ex.sent = bytes(b)
            conn.dev_send(bytes(b), delay)
        elif mode == "extra":
            e = bytes.fromhex(spec.get("bytes", "00"))
            ex.sent = reply + e
            conn.dev_send(reply + e, delay)
        elif mode == "eof":
            conn.dead = True
            conn.dev_fin(delay)
        elif mode == "rst":
            conn.dead = True
            import errno as _e
            conn.dev_rst(delay, {"reset": _e.ECONNRESET, "timedout": _e.ETIMEDOUT, "hostunreach": _e.EHOSTUNREACH,
                                 "netunreach": _e.ENETUNREACH, "pipe": _e.EPIPE}[spec.get("err", "reset")])
        elif mode == "silent":
            pass
        else:
            raise ValueError("unknown reply mode %r" % mode)

    def _apply_ir(self, text: bytes) -> None:
        """The air conditioner obeys the IR code it was sent (so that a later state query reflects it)."""
        import re
        key = self.cfg["ir_table"].get(text.decode("ascii", "replace"))
        if key is None:
            return
        st = self.state
        toggle = bool(self.cfg.get("ir_toggle"))
        if key == "off":
            st["t_on"] = False
            return
        if key.startswith("FUN_d"):
            st["t_swing"] = 1 if key.endswith("1") else 0
            return
        if key.startswith("on_"):
            st["t_on"] = not st["t_on"]
            key = key[3:]
        elif not toggle:
            st["t_on"] = True
        m = re.match(r"^(a[adwrh])(\d\d)?(?:_f(\d))?(_d1)?$", key)
        if not m:
            return
        st["t_mode"] = {"aa": 1, "ad": 2, "aw": 3, "ar": 4, "ah": 5}[m.group(1)]
        if m.group(2):
            st["t_target"] = int(m.group(2))
        if m.group(3) is not None:
            st["t_fan"] = int(m.group(3))
        if not self.cfg.get("ir_special"):
            st["t_swing"] = 1 if m.group(4) else 0

    # -- protocol behaviour
    def _reply_for(self, conn: TcpConn, kind: str, u: bytes):
        st = self.state
        if kind in ("login1", "login2"):
            conn.session = self._new_session(conn)
            return codecs.enc_login(conn.session), None
        sess = conn.session
        if kind == "get_state1":
            snap = {"on": st["on"], "watts": st["watts"], "time_left": st["time_left"], "time_on": st["time_on"],
                    "auto_off": st["auto_off"]}
            return codecs.enc_state1(sess, snap["on"], snap["watts"], snap["time_left"], snap["time_on"],
                                     snap["auto_off"]), snap
        if kind == "get_state2":
            if self.kind == "runner":
                snap = {"position": st["position"], "direction": st["direction"]}
                return codecs.enc_shutter(sess, snap["position"], snap["direction"]), snap
            snap = {"on": st["t_on"], "mode": st["t_mode"], "target": st["t_target"], "fan": st["t_fan"],
                    "swing": st["t_swing"], "temp10": st["t_temp10"], "remote": st["t_remote"]}
            return codecs.enc_breeze(sess, snap["on"], snap["mode"], snap["target"], snap["fan"], snap["swing"],
                                     snap["temp10"], snap["remote"]), snap
        if kind == "control" and len(u) >= 89:
            st["on"] = u[83] == 1
            st["time_left"] = struct.unpack("<I", u[85:89])[0] % 86400 if st["on"] else 0
        elif kind == "auto_off" and len(u) >= 87:
            st["auto_off"] = struct.unpack("<I", u[83:87])[0] % 86400
        elif kind == "set_name" and len(u) >= 112:
            st["name_raw"] = u[80:112].hex()
        elif kind == "get_schedules":
            return codecs.enc_schedules(sess, list(self.sched_records)), {"records": [r.hex() for r in self.sched_records]}
        elif kind == "delete_schedule" and len(u) >= 84:
            slot = u[83]
            self.sched_records = [r for r in self.sched_records if r[0] != slot]
        elif kind == "create_schedule" and len(u) >= 95:
            used = {r[0] for r in self.sched_records}
            free = [s for s in range(8) if s not in used]
            if free:
                mask, start, end = u[85], u[87:91], u[91:95]
                self.sched_records.append(bytes([free[0], 1, mask, 1]) + start + end + bytes.fromhex("ce0e0000"))
        elif kind == "runner_position" and len(u) >= 84:
            st["position"] = u[83]
        elif kind == "runner_stop":
            st["direction"] = "0000"
        elif kind == "breeze_command" and len(u) > 91 and self.cfg.get("ir_table"):
            self._apply_ir(u[87:-4])
        elif kind == "breeze_update" and len(u) >= 90:
            st["t_on"] = u[86] == 1
            if u[87] in codecs.MODES:
                st["t_mode"] = u[87]
            st["t_target"] = u[88]
            st["t_fan"] = (u[89] >> 4) & 3
            st["t_swing"] = u[89] & 1
        return codecs.enc_ack(sess), None
