"""Self-tests of the machinery: smoke, determinism, regression replays, stub fidelity, sensitivity (mutants)."""
from __future__ import annotations

import copy
import glob
import json
import os
import shutil
import subprocess
import sys
import tempfile
import time
from typing import Any, Dict, List

from . import framework as fw

VERIF = fw.VERIF


def smoke() -> int:
    from refs import codecs, crc
    crc.selfcheck()
    codecs.selfcheck("/repo/tests" if os.path.isdir("/repo/tests") else None)
    reg = fw.registry()
    for pid in ("C03", "C07", "C11"):
        prop = reg[pid]
        st = prop.strata("quick")[0]
        scn = fw.make_scenario(prop, st, 0, 0)
        run, viols, _ = fw.run_scenario(prop, scn)
        run2 = fw.execute(copy.deepcopy(scn))
        if run.digest != run2.digest:
            print("HARNESS-ERROR: smoke run of %s is not deterministic" % pid)
            return 2
    print("selftest-smoke ok")
    return 0


def _digests(pids: List[str], n: int, master: int) -> Dict[str, str]:
    reg = fw.registry()
    out = {}
    for pid in pids:
        prop = reg[pid]
        for st in prop.strata("quick"):
            for i in range(n):
                scn = fw.make_scenario(prop, st, master, i)
                run = fw.execute(scn)
                out["%s/%s/%d" % (pid, st.name, i)] = run.digest
    return out


def determinism(argv: List[str]) -> int:
    """N scenarios per stratum per property: same process twice, fresh interpreter under another
    PYTHONHASHSEED, and via the worker pool at 1 and 16 workers; all event-log digests must agree."""
    if argv and argv[0] == "--emit":
        n, master = int(argv[1]), int(argv[2])
        print(json.dumps(_digests(sorted(fw.registry()), n, master)))
        return 0
    n = int(os.environ.get("VERIF_DET_N", "12"))
    master = int(os.environ.get("VERIF_SEED", "0"))
    pids = sorted(fw.registry())
    t0 = time.time()
    a = _digests(pids, n, master)
    b = _digests(pids, n, master)
    bad = [k for k in a if a[k] != b[k]]
    print("same-process twice: %d scenarios, %d mismatches" % (len(a), len(bad)))
    total_bad = len(bad)
    for hs in ("1", "12345"):
        env = dict(os.environ)
        env["PYTHONHASHSEED"] = hs
        env["VERIF_REEXEC"] = "1"
        p = subprocess.run([sys.executable, os.path.join(VERIF, "check"), "selftest-determinism", "--emit", str(n), str(master)],
                           capture_output=True, text=True, env=env, timeout=1800)
        line = [l for l in p.stdout.splitlines() if l.startswith("{")]
        if not line:
            print("HARNESS-ERROR: fresh interpreter produced nothing: %s" % p.stderr[-500:])
            return 2
        c = json.loads(line[-1])
        bad = [k for k in a if a[k] != c.get(k)]
        print("fresh interpreter PYTHONHASHSEED=%s: %d mismatches %s" % (hs, len(bad), bad[:3]))
        total_bad += len(bad)
    # worker-count independence: evidence digests bitmap equal for 1 and 16 workers on a small batch
    sums = []
    for w in ("1", "16"):
        env = dict(os.environ)
        env["VERIF_WORKERS"] = w
        env["VERIF_SCALE"] = "0.02"
        p = subprocess.run([sys.executable, os.path.join(VERIF, "check"), "C07", "quick"], capture_output=True, text=True,
                           env=env, timeout=1800)
        ev = json.load(open(os.path.join(VERIF, "evidence", "C07.json")))
        sums.append((ev["coverage"]["evaluations"], ev["coverage"]["distinct_event_log_digests"],
                     ev["coverage"]["distinct_schedule_signatures"], json.dumps(ev["coverage"]["observations"], sort_keys=True)))
    print("1 vs 16 workers: %s" % ("identical" if sums[0] == sums[1] else "DIFFERENT %s" % (sums,)))
    if sums[0] != sums[1]:
        total_bad += 1
    print("selftest-determinism: %d scenarios x 4 executions in %.0fs, %d mismatches" % (len(a), time.time() - t0, total_bad))
    return 0 if total_bad == 0 else 2


def regress() -> int:
    """Replays of defects that were found and repaired: each must now pass (and is listed as fixed)."""
    reg = fw.registry()
    bad = 0
    files = sorted(glob.glob(os.path.join(VERIF, "regress", "*.json")))
    for f in files:
        scn = json.load(open(f))
        pid = scn["property"]
        key = scn.get("expect", {}).get("key")
        _, viols, _ = fw.run_scenario(reg[pid], scn)
        if viols:
            bad += 1
            print("VIOLATION property=%s replay=%s" % (pid, f))
            print("  (regression of a repaired defect) key: %s" % viols[0][0])
    print("selftest-regress: %d replays, %d still/again violating" % (len(files), bad))
    return 1 if bad else 0


# ------------------------------------------------------------------- fidelity


def fidelity() -> int:
    """The same micro-scenarios over real 127.0.0.1 sockets (stock loop) and under simnet; outcomes must agree."""
    from . import fidelity as fd
    return fd.main()


# -------------------------------------------------------------------- mutants


def _suite_failures(src_root: str) -> List[str]:
    env = dict(os.environ)
    env["PYTHONPATH"] = os.path.join(src_root, "src")
    p = subprocess.run(["/venv/bin/python", "-m", "pytest", "-q", "-p", "no:cacheprovider", "-rf", "-x" if False else "-q"],
                       cwd=src_root, capture_output=True, text=True, env=env, timeout=900)
    return sorted(l.split(" ")[1] for l in p.stdout.splitlines() if l.startswith("FAILED"))


def mutants(argv: List[str]) -> int:
    from mutants import catalogue
    only = set(argv) if argv and argv[0] not in ("x",) else None
    repo = os.environ.get("VERIF_REPO", "/repo")
    base = tempfile.mkdtemp(prefix="verif-mut-")
    results = []
    try:
        scratch = os.path.join(base, "repo")
        shutil.copytree(repo, scratch, ignore=shutil.ignore_patterns(".git", "__pycache__", "docs", "site"))
        baseline_fail = _suite_failures(scratch)
        for m in catalogue.MUTANTS:
            if only and m["id"] not in only and m["property"] not in only:
                continue
            path = os.path.join(scratch, m["file"])
            orig = open(path).read()
            if m["old"] not in orig:
                results.append((m["id"], m["property"], "STALE", "pattern not found"))
                continue
            text = orig.replace(m["old"], m["new"], 1)
            for o2, n2 in m.get("edits", []):
                if o2 not in text:
                    text = None
                    break
                text = text.replace(o2, n2, 1)
            if text is None:
                results.append((m["id"], m["property"], "STALE", "second pattern not found"))
                continue
            open(path, "w").write(text)
            try:
                fails = _suite_failures(scratch)
                suite_ok = fails == baseline_fail
                env = dict(os.environ)
                env["VERIF_REPO"] = scratch
                env["VERIF_NO_EVIDENCE"] = "1"
                env["VERIF_REPLAY_DIR"] = os.path.join(base, "replays")
                t0 = time.time()
                p = subprocess.run([sys.executable, os.path.join(VERIF, "check"), m["property"], "quick"],
                                   capture_output=True, text=True, env=env, timeout=1800)
                caught = p.returncode == 1 and "VIOLATION property=%s" % m["property"] in p.stdout
                keys = [l.strip()[5:] for l in p.stdout.splitlines() if l.strip().startswith("key: ")]
                status = "CAUGHT" if caught else ("HARNESS" if p.returncode == 2 else "MISSED")
                results.append((m["id"], m["property"], status,
                                "%s suite_unchanged=%s %.0fs %s" % (keys[:2], suite_ok, time.time() - t0,
                                                                    "" if suite_ok else "new failures: %s" % sorted(set(fails) - set(baseline_fail))[:2])))
            finally:
                open(path, "w").write(orig)
            print("%-28s %-4s %-7s %s" % results[-1], flush=True)
    finally:
        shutil.rmtree(base, ignore_errors=True)
    missed = [r for r in results if r[2] != "CAUGHT"]
    print("selftest-mutants: %d mutants, %d caught, %d not" % (len(results), len(results) - len(missed), len(missed)))
    return 0 if not missed else 1


def seeded(argv: List[str]) -> int:
    """Every confirmed seeded change under /verif/seeded must still make its property's quick check exit 1."""
    only = set(a for a in argv if a != "x")
    repo = os.environ.get("VERIF_REPO", "/repo")
    base = tempfile.mkdtemp(prefix="verif-seeded-")
    rows = []
    try:
        for d in sorted(glob.glob(os.path.join(VERIF, "seeded", "*"))):
            name = os.path.basename(d)
            meta = json.load(open(os.path.join(d, "meta.json")))
            pid = meta.get("verified_by_me", {}).get("property") or meta.get("property")
            if only and name not in only and pid not in only:
                continue
            wt = os.path.join(base, name)
            r = subprocess.run(["git", "-C", repo, "worktree", "add", "-q", "--detach", wt, "HEAD"], capture_output=True, text=True)
            if r.returncode:
                rows.append((name, pid, "HARNESS", r.stderr[-200:]))
                continue
            try:
                a = subprocess.run(["git", "-C", wt, "apply", os.path.join(d, "patch.diff")], capture_output=True, text=True)
                if a.returncode:
                    rows.append((name, pid, "STALE", a.stderr[-200:]))
                    continue
                env = dict(os.environ, VERIF_REPO=wt, VERIF_NO_EVIDENCE="1", VERIF_REPLAY_DIR=os.path.join(base, "replays"))
                t0 = time.time()
                p = subprocess.run([sys.executable, os.path.join(VERIF, "check"), pid, "quick"], capture_output=True, text=True,
                                   env=env, timeout=1800)
                keys = [l.strip()[5:] for l in p.stdout.splitlines() if l.strip().startswith("key: ")]
                status = "CAUGHT" if p.returncode == 1 else ("HARNESS" if p.returncode == 2 else "MISSED")
                rows.append((name, pid, status, "%s %.0fs" % (keys[:2], time.time() - t0)))
            finally:
                subprocess.run(["git", "-C", repo, "worktree", "remove", "--force", wt], capture_output=True)
            print("%-42s %-4s %-7s %s" % rows[-1], flush=True)
    finally:
        shutil.rmtree(base, ignore_errors=True)
        subprocess.run(["git", "-C", repo, "worktree", "prune"], capture_output=True)
    missed = [r for r in rows if r[2] != "CAUGHT"]
    print("selftest-seeded: %d seeded changes, %d caught, %d not" % (len(rows), len(rows) - len(missed), len(missed)))
    return 0 if not missed else 1


def benign(argv: List[str]) -> int:
    """Every stored behaviour-preserving refactor under /verif/benign must leave every quick check at exit 0."""
    only = set(a for a in argv if a != "x")
    repo = os.environ.get("VERIF_REPO", "/repo")
    base = tempfile.mkdtemp(prefix="verif-benign-")
    rows = []
    pids = sorted(fw.registry())
    try:
        for d in sorted(glob.glob(os.path.join(VERIF, "benign", "*"))):
            name = os.path.basename(d)
            if only and name not in only:
                continue
            wt = os.path.join(base, name)
            r = subprocess.run(["git", "-C", repo, "worktree", "add", "-q", "--detach", wt, "HEAD"], capture_output=True, text=True)
            if r.returncode:
                rows.append((name, "HARNESS", r.stderr[-200:]))
                continue
            try:
                a = subprocess.run(["git", "-C", wt, "apply", os.path.join(d, "patch.diff")], capture_output=True, text=True)
                if a.returncode:
                    rows.append((name, "STALE", a.stderr[-200:]))
                    continue
                alarms = []
                for pid in pids:
                    env = dict(os.environ, VERIF_REPO=wt, VERIF_NO_EVIDENCE="1", VERIF_REPLAY_DIR=os.path.join(base, "replays"))
                    p = subprocess.run([sys.executable, os.path.join(VERIF, "check"), pid, "quick"], capture_output=True,
                                       text=True, env=env, timeout=1800)
                    if p.returncode != 0:
                        keys = [l.strip()[5:] for l in p.stdout.splitlines() if l.strip().startswith("key: ")]
                        alarms.append((pid, p.returncode, keys[:2] or p.stdout[-200:]))
                rows.append((name, "QUIET" if not alarms else "ALARM", str(alarms)))
            finally:
                subprocess.run(["git", "-C", repo, "worktree", "remove", "--force", wt], capture_output=True)
            print("%-6s %-7s %s" % rows[-1], flush=True)
    finally:
        shutil.rmtree(base, ignore_errors=True)
        subprocess.run(["git", "-C", repo, "worktree", "prune"], capture_output=True)
    bad = [r for r in rows if r[1] != "QUIET"]
    print("selftest-benign: %d refactors, %d raise no alarm, %d do" % (len(rows), len(rows) - len(bad), len(bad)))
    return 0 if not bad else 1


def main(what: str, argv: List[str]) -> int:
    if what == "selftest-smoke":
        return smoke()
    if what == "selftest-determinism":
        return determinism(argv)
    if what == "selftest-regress":
        return regress()
    if what == "selftest-fidelity":
        return fidelity()
    if what == "selftest-mutants":
        return mutants(argv)
    if what == "selftest-seeded":
        return seeded(argv)
    if what == "selftest-benign":
        return benign(argv)
    print("unknown selftest %s" % what)
    return 2
