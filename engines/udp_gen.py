"""Seeded scenario generators for the UDP engine."""
from __future__ import annotations

import random
from typing import Any, Dict, List, Optional

from refs import codecs
from .tcp_gen import BODY_EXCEPTION_KINDS, SCRIPTS, uidify
from .tcp_gen import base_config as _base_config

ALL_PORTS = [20002, 10002, 20003, 10003]
SOCKERRS = ["refused", "refused", "hostunreach", "netunreach", "msgsize", "perm", "netdown"]
CB_KINDS = ["function", "function", "function", "partial", "method", "callable", "lambda"]


def base_config(rng):
    cfg = _base_config(rng)
    cfg["cb_kind"] = rng.choice(CB_KINDS)      # what kind of callable the user handed to the bridge
    return cfg
MODELS = list(codecs.MODELS)


def gen_name32(rng) -> str:
    """A name of 1..32 UTF-8 bytes without NUL."""
    alpha = rng.choice([SCRIPTS["ascii"], SCRIPTS["hebrew"], SCRIPTS["accented"], SCRIPTS["astral"], SCRIPTS["bmp3"],
                        SCRIPTS["unstable"], SCRIPTS["ascii"] + SCRIPTS["hebrew"] + SCRIPTS["astral"]])
    target = rng.choice([1, 2, 5, 16, 31, 32, rng.randrange(1, 33)])
    s = ""
    while True:
        ch = rng.choice(alpha)
        if len((s + ch).encode()) > target:
            break
        s += ch
    if not s:
        s = "ab"[: max(1, min(2, target))]
    if rng.random() < 0.05 and len(s.encode()) <= 30:
        s = rng.choice([" ", "\t", ""]) + s + rng.choice([" ", "\t", "\n"])     # blanks at either end are part of the name
    return s


def gen_bcast_spec(rng, tag: int, model: Optional[str] = None) -> Dict[str, Any]:
    model = model or rng.choice(MODELS)
    cat = codecs.MODELS[model][2]
    s: Dict[str, Any] = {
        "model": model, "id": "%06x" % (tag & 0xFFFFFF), "key": rng.choice(["18", "03", "06", "08", "00", "ff"]) if rng.random() < 0.15 else "%02x" % rng.randrange(256),
        "ip": [rng.choice([0, 1, 10, 127, 192, 255, rng.randrange(256)]) for _ in range(4)],
        "mac": [rng.choice([0, 0xff, 0x0a, 0xa0, rng.randrange(256)]) for _ in range(6)],
        "name": gen_name32(rng)}
    if cat in ("heater", "plug"):
        s.update(on=rng.random() < 0.5, watts=rng.choice([0, 1, 219, 220, 255, 256, 2600, 65535, 61694, 65264, rng.randrange(65536)]),
                 remaining=rng.choice([0, 1, 59, 60, 3599, 3600, 86399, 61694, 65264, 65536, 7680, rng.randrange(86400)]),
                 auto_off=rng.choice([0, 3600, 86399, 61694, 65536, rng.randrange(86400)]))
    elif cat == "runner":
        s.update(position=rng.choice([0, 1, 9, 10, 16, 50, 99, 100, rng.randrange(101)]),
                 direction=rng.choice(["0000", "0100", "0001"]))
    else:
        s.update(on=rng.random() < 0.5, temp10=rng.choice([0, 1, 255, 256, 281, 65535, 61694, 65264, 32767, 32768, rng.randrange(65536)]),
                 mode=rng.randrange(1, 6), target=rng.choice([0, 16, 30, 255, rng.randrange(256)]),
                 fan=rng.randrange(4), swing=rng.randrange(2),
                 remote_id="".join(rng.choice("ABCDEFGHIJKLMNOPQRSTUVWXYZ0123456789") for _ in range(8)))
    return s


FIXTURE_TAGS = [0xAAAAAA, 0x3A20B7, 0xF2239A, 0xA123BC, 0x000001, 0xFFFFFF, 0x800000]


def rand_tag(rng) -> int:
    return rng.choice(FIXTURE_TAGS) if rng.random() < 0.08 else rng.randrange(1, 1 << 24)


def valid_dgram(rng, tag: int, model: Optional[str] = None) -> bytes:
    return codecs.encode_broadcast(gen_bcast_spec(rng, tag, model))


def again_dgram(rng, spec: Dict[str, Any]) -> bytes:
    """The same device broadcasting again (as real devices do every few seconds) with one or two fields changed."""
    s = dict(spec)
    fresh = gen_bcast_spec(rng, int(s["id"], 16), s["model"])
    keys = [k for k in fresh if k not in ("id", "model")]
    if rng.random() < 0.4:
        # the smallest possible change: one octet of the address fields or one character of the name
        k = rng.choice(["ip", "mac", "mac", "name", "key"])
        if k in ("ip", "mac"):
            v = list(s[k])
            i = rng.choice([0, len(v) - 1, rng.randrange(len(v))])
            v[i] = (v[i] + rng.choice([1, 0x80, 0xff])) & 0xFF
            s[k] = v
        elif k == "key":
            s[k] = "%02x" % ((int(s[k], 16) + 1) & 0xFF)
        else:
            nm = s["name"]
            if nm and ord(nm[-1]) < 0x7e and ord(nm[-1]) > 0x20:
                s["name"] = nm[:-1] + chr(ord(nm[-1]) + 1)
    else:
        for k in rng.sample(keys, rng.choice([0, 1, 1, 2])):
            s[k] = fresh[k]
    spec.update(s)
    return codecs.encode_broadcast(s)


def junk_dgram(rng, tag: int, kind: Optional[str] = None) -> bytes:
    kind = kind or rng.choice(["foreign", "truncated", "extended", "bitflip", "unknown_model", "undecodable", "wrong_magic",
                               "empty", "selfdescribing"])
    v = valid_dgram(rng, tag)
    if kind == "foreign":
        n = rng.choice([0, 1, 2, 3, 100, 158, 159, 160, 164, 165, 166, 167, 168, 169, 400, rng.randrange(0, 401)])
        b = rng.randbytes(n)
        if b[:2] == b"\xfe\xf0" and len(b) in (159, 165, 168):
            b = b"\x00" + b[1:]
        return b
    if kind == "empty":
        return b""
    if kind == "selfdescribing":
        # magic + a header length field that truthfully states the datagram's own (off-list) length: another kind of
        # Switcher frame, or a valid broadcast cut/extended with its header rewritten
        import struct
        from refs.crc import sign
        r = rng.random()
        if r < 0.4:
            n = rng.choice([4, 5, 44, 48, 100, 158, 160, 164, 166, 167, 169, 170, 300, rng.randrange(4, 401)])
            b = bytearray(b"\xfe\xf0" + rng.randbytes(max(0, n - 2)))
        elif r < 0.7:
            b = bytearray(v[: rng.randrange(4, len(v))])
        else:
            b = bytearray(v + rng.randbytes(rng.randrange(1, 40)))
        if len(b) in (159, 165, 168):
            b += b"\x00"
        b[2:4] = struct.pack("<H", len(b))
        if rng.random() < 0.3 and len(b) > 8:
            b = bytearray(sign(bytes(b[:-4])))          # ... and correctly signed
            b[2:4] = struct.pack("<H", len(b))
            b = bytearray(sign(bytes(b[:-4])))
        return bytes(b)
    if kind == "truncated":
        return v[: len(v) - rng.choice([1, 2, 3, rng.randrange(1, len(v))])]
    if kind == "extended":
        k = rng.choice([1, 2, 3, 4, 5, 7])
        b = v + rng.choice([rng.randbytes(k), b"\n", b"\r\n", b"\x00", b"\r", b" ", b"\xff", b"\n" * k, b"\x00" * k])
        if len(b) in (159, 165, 168):
            b += b"\x00"
        return b
    if kind == "wrong_magic":
        b = bytearray(v)
        i = rng.randrange(2)
        b[i] ^= 1 << rng.randrange(8)
        return bytes(b)
    if kind == "bitflip":
        b = bytearray(v)
        for _ in range(rng.choice([1, 1, 2, 5])):
            i = rng.randrange(len(b))
            b[i] ^= 1 << rng.randrange(8)
        return bytes(b)
    if kind == "unknown_model":
        b = bytearray(v)
        while True:
            code = rng.choice([b"\x00\x00", b"\xff\xff", b"\x03\x0e", b"\x0e\x02", b"\x0c\x03", rng.randbytes(2)])
            if code.hex() not in codecs.MODELS:
                break
        b[74:76] = code
        r = rng.random()
        if r < 0.25:
            b[42 + rng.randrange(0, 8)] = rng.choice([0xff, 0xc0, 0x80, 0xfe])     # ... and a name that is not UTF-8
        elif r < 0.4:
            b[76:] = rng.randbytes(len(b) - 76)                                     # ... and an arbitrary body
        elif r < 0.5:
            b[2:74] = rng.randbytes(72)
        return bytes(b)
    if kind == "undecodable":
        b = bytearray(v)
        cat = codecs.MODELS[v[74:76].hex()][2]
        r = rng.random()
        if r < 0.4:
            b[42 + rng.randrange(0, 8)] = rng.choice([0xff, 0xc0, 0x80, 0xfe])     # invalid UTF-8 in the name
        elif cat == "runner":
            b[137:139] = rng.choice([b"\x01\x01", b"\x02\x00", b"\xff\xff"])
        elif cat == "breeze":
            b[140] = rng.choice([0x40, 0x90, 0xf0])
        else:
            b[147:151] = b"\xff\xff\xff\x7f"
        return bytes(b)
    raise ValueError(kind)


def gen_src(rng) -> List[Any]:
    ip = rng.choice(["192.168.1.50", "10.0.0.7", "172.16.5.9", "8.8.8.8", "169.254.1.1", "127.0.0.1", "255.255.255.255",
                     "%d.%d.%d.%d" % tuple(rng.randrange(1, 255) for _ in range(4))])
    port = rng.choice([20002, 20003, 10002, 10003, 53, 1, 65535, rng.randrange(1024, 65536)])
    return [ip, port]


def net_faults(rng, st: Dict[str, Any], p_drop=0.05, p_dup=0.1, p_delay=0.4):
    if rng.random() < 0.5:
        st["src"] = gen_src(rng)
    if rng.random() < p_delay:
        st["delay"] = round(rng.choice([0.000001, 0.0005, 0.01, 0.2, rng.uniform(0, 0.5), rng.uniform(0, 5)]), 6)
    if rng.random() < p_dup:
        st["dup"] = [round(st.get("delay", 0.0) + rng.choice([0.0, 0.000001, 0.01, 0.3]), 6) for _ in range(rng.choice([1, 1, 2]))]
    if rng.random() < p_drop:
        st["drop"] = True
    return st


def gen_c05(rng, long: bool = False) -> Dict[str, Any]:
    cfg = base_config(rng)
    cfg["ports"] = rng.choice([None, ALL_PORTS, [20002, 20003], [20002], [10003, 10002]])
    ports = cfg["ports"] or ALL_PORTS
    steps: List[dict] = [{"kind": "start"}]
    if rng.random() < 0.1:
        steps = [{"kind": "start"}, {"kind": "stop"}, {"kind": "start"}]
    n = rng.randrange(200, 600) if long else rng.randrange(1, 25)
    specs: List[Dict[str, Any]] = []
    for t in range(n):
        if specs and rng.random() < 0.3:
            payload = again_dgram(rng, rng.choice(specs))
        else:
            specs.append(gen_bcast_spec(rng, rand_tag(rng)))
            payload = codecs.encode_broadcast(specs[-1])
        st = {"kind": "dgram", "port": rng.choice(ports), "payload": payload.hex(), "tag": t}
        net_faults(rng, st)
        steps.append(st)
        if rng.random() < 0.3:
            steps.append({"kind": "sleep", "s": rng.choice([0.0, 0.001, 0.1, 1.0])})
    return {"engine": "udp", "config": cfg, "steps": uidify(steps)}


def gen_c06(rng, index: int, systematic: bool) -> Dict[str, Any]:
    """Datagrams spaced 2 virtual seconds apart so that whatever a datagram triggers is attributable to it."""
    cfg = base_config(rng)
    cfg["ports"] = rng.choice([None, [20002, 20003], [20002]])
    ports = cfg["ports"] or ALL_PORTS
    steps: List[dict] = [{"kind": "start"}]
    items: List[bytes] = []
    if systematic:
        # every length 0..400, with and without the magic: 802 cases, 6 per scenario
        base = (index * 6) % 802
        for j in range(6):
            k = (base + j) % 802
            n, magic = k // 2, k % 2 == 1
            body = rng.randbytes(n)
            if magic and n >= 2:
                body = b"\xfe\xf0" + body[2:]
                if n >= 4 and rng.random() < 0.5:
                    body = body[:2] + n.to_bytes(2, "little") + body[4:]      # header length field = real length
            elif not magic and body[:2] == b"\xfe\xf0":
                body = b"\xfe\xf1" + body[2:]
            if n in (159, 165, 168) and magic:
                # gate passes: make it a well-formed frame of that length so the expectation is settled
                model = {159: "0c01", 165: "030f", 168: "0e01"}[n]
                body = valid_dgram(rng, rng.randrange(1, 1 << 24), model)
            items.append(body)
    else:
        for _ in range(rng.randrange(1, 10)):
            r = rng.random()
            tag = rng.randrange(1, 1 << 24)
            if r < 0.06:
                items.append(rng.choice([b"", b"\xfe", b"\xfe\xf0", b"\xf0", b"\xfe\xf0\x00"]))
            elif r < 0.25:
                items.append(valid_dgram(rng, tag))
            elif r < 0.5:
                items.append(junk_dgram(rng, tag, "unknown_model"))
            else:
                items.append(junk_dgram(rng, tag, rng.choice(["foreign", "truncated", "extended", "wrong_magic", "empty",
                                                              "truncated", "extended", "selfdescribing", "selfdescribing"])))
            if rng.random() < 0.04:
                # far larger than any broadcast: still just "any other byte string"
                big = rng.choice([441, 512, 513, 1024, 1472, 1500, 4096, 9000, 65507])
                items.append(rng.choice([b"\xfe\xf0", b""]) + rng.randbytes(big - 2))
            if rng.random() < 0.2:
                # the very same datagram again (a device re-broadcasting): whatever the first one caused, the
                # second must cause too
                items.append(rng.choice(items))
    for t, b in enumerate(items):
        steps.append({"kind": "dgram", "port": rng.choice(ports), "payload": b.hex(), "tag": t})
        steps.append({"kind": "sleep", "s": 2.0})
    return {"engine": "udp", "config": cfg, "steps": uidify(steps)}


def gen_c06_models(rng, index: int) -> Dict[str, Any]:
    """All 65 536 model codes inside otherwise valid frames, 16 per scenario."""
    cfg = base_config(rng)
    cfg["ports"] = [20002, 20003]
    steps: List[dict] = [{"kind": "start"}]
    for j in range(16):
        code = (index * 16 + j) % 65536
        carrier = bytearray(valid_dgram(rng, rng.randrange(1, 1 << 24), rng.choice(MODELS)))
        carrier[74:76] = code.to_bytes(2, "big")
        steps.append({"kind": "dgram", "port": rng.choice([20002, 20003]), "payload": bytes(carrier).hex(), "tag": j})
        steps.append({"kind": "sleep", "s": 2.0})
    # ... and one of them once more (a device announces itself every few seconds)
    again = dict(steps[1 + 2 * rng.randrange(16)], tag=16, port=rng.choice([20002, 20003]))
    steps.append(again)
    steps.append({"kind": "sleep", "s": 2.0})
    return {"engine": "udp", "config": cfg, "steps": uidify(steps)}


def gen_c07(rng, long: bool = False) -> Dict[str, Any]:
    cfg = base_config(rng)
    cfg["ports"] = rng.choice([None, ALL_PORTS, [20002, 20003], [20002], [20003, 10003, 20002]])
    ports = cfg["ports"] or ALL_PORTS
    n = rng.randrange(200, 600) if long else rng.randrange(2, 40)
    if rng.random() < 0.5:
        k = rng.randrange(1, 4)
        cfg["cb_raise"] = sorted(rng.sample(range(1, n + 1), min(k, n)))
    if rng.random() < 0.15:
        cfg["rxq_limit"] = rng.choice([1, 2, 4])
    steps: List[dict] = [{"kind": "start"}]
    if rng.random() < 0.12:
        steps = rng.choice([
            [{"kind": "start"}, {"kind": "stop"}, {"kind": "start"}],
            [{"kind": "aenter"}, {"kind": "aexit"}, {"kind": "sleep", "s": 0.01}, {"kind": "aenter"}],
            [{"kind": "occupy", "port": ports[-1]}, {"kind": "start"}, {"kind": "release", "port": ports[-1]}, {"kind": "start"}],
        ])
    second = None
    if rng.random() < 0.12:
        # another bridge object in the same process tries to use one of the same ports (and fails)
        other = [rng.choice(ports)] + ([30001] if rng.random() < 0.5 else [])
        rng.shuffle(other)
        cfg["bridges"] = [{"ports": cfg["ports"]}, {"ports": other}]
        second = rng.randrange(0, n)
    p_junk = rng.choice([0.0, 0.3, 0.6])
    burst = rng.random() < 0.5
    specs: List[Dict[str, Any]] = []
    for t in range(n):
        tag = rand_tag(rng)
        if second is not None and t == second:
            steps.append({"kind": rng.choice(["start", "aenter"]), "bridge": 1})
            if rng.random() < 0.5:
                steps.append({"kind": "stop", "bridge": 1})
        if rng.random() < p_junk:
            b = junk_dgram(rng, tag)
        elif specs and rng.random() < 0.25:
            b = again_dgram(rng, rng.choice(specs))
        else:
            specs.append(gen_bcast_spec(rng, tag))
            b = codecs.encode_broadcast(specs[-1])
        st = {"kind": "dgram", "port": rng.choice(ports), "payload": b.hex(), "tag": t}
        net_faults(rng, st, p_drop=0.08, p_dup=0.15, p_delay=0.6 if burst else 0.3)
        steps.append(st)
        if len(ports) > 1 and rng.random() < 0.08:
            other = rng.choice([p for p in ports if p != st["port"]])
            m = dict(st, port=other, tag="%sm" % t)
            m.pop("drop", None)
            steps.append(m)           # devices announce on the legacy and the new port at once
        if rng.random() < 0.07:
            steps.append({"kind": "sockerr", "port": rng.choice(ports), "delay": round(rng.uniform(0, 0.3), 6), "err": rng.choice(SOCKERRS)})
        if not burst and rng.random() < 0.5:
            steps.append({"kind": "sleep", "s": rng.choice([0.0, 0.000001, 0.001, 0.05, 1.0])})
    return {"engine": "udp", "config": cfg, "steps": uidify(steps)}


LIFE = ["start", "stop", "send", "occupy", "release", "aenter", "aexit", "aexit_exc", "send_late"]


def gen_c17_two(rng) -> Dict[str, Any]:
    """Two or three bridge objects in one process, with overlapping or disjoint port lists."""
    cfg = base_config(rng)
    pool = ALL_PORTS + [30001, 30002]
    nb = rng.choice([2, 2, 3])
    specs = []
    for _ in range(nb):
        specs.append({"ports": rng.sample(pool, rng.randrange(1, 4))})
    if rng.random() < 0.6:
        specs[1]["ports"] = rng.sample(specs[0]["ports"], rng.randrange(1, len(specs[0]["ports"]) + 1)) + \
            ([rng.choice(pool)] if rng.random() < 0.5 else [])
        specs[1]["ports"] = list(dict.fromkeys(specs[1]["ports"]))
        rng.shuffle(specs[1]["ports"])
    cfg["bridges"] = specs
    cfg["ports"] = specs[0]["ports"]
    steps: List[dict] = []
    tagc = [0]
    allp = sorted({p for sp in specs for p in sp["ports"]})
    for _ in range(rng.randrange(3, 16)):
        r = rng.random()
        b = rng.randrange(nb)
        if r < 0.35:
            steps.append({"kind": rng.choice(["start", "aenter"]), "bridge": b})
        elif r < 0.6:
            steps.append({"kind": rng.choice(["stop", "aexit"]), "bridge": b, "exc": rng.random() < 0.3})
        else:
            tagc[0] += 1
            steps.append({"kind": "dgram", "port": rng.choice(allp), "payload": valid_dgram(rng, rng.randrange(1, 1 << 24)).hex(),
                          "tag": tagc[0]})
            steps.append({"kind": "sleep", "s": rng.choice([0.01, 1.5])})
    steps.append({"kind": "sleep", "s": 1.0})
    return {"engine": "udp", "config": cfg, "steps": uidify(steps)}


def c17_sequences(maxlen: int) -> List[tuple]:
    """Well-behaved user: no start while running; stop anywhere."""
    out: List[tuple] = []
    alpha = ["start", "stop", "send", "occupy0", "occupy1", "release0", "release1"]

    def rec(seq, running, occ):
        if seq:
            out.append(tuple(seq))
        if len(seq) == maxlen:
            return
        for a in alpha:
            if a == "start":
                # start on a running bridge is allowed once per sequence (it fails on the bridge's own ports)
                if running and "start!" in seq:
                    continue
                rec(seq + [a + "!" if running else a], (not occ) and not running, occ)
            elif a == "stop":
                rec(seq + [a], False, occ)
            elif a == "send":
                rec(seq + [a], running, occ)
            elif a.startswith("occupy"):
                i = int(a[-1])
                if running or i in occ:
                    continue
                rec(seq + [a], running, occ | {i})
            else:
                i = int(a[-1])
                if i not in occ:
                    continue
                rec(seq + [a], running, occ - {i})
    rec([], False, frozenset())
    return out


_C17: Dict[int, List[tuple]] = {}


def c17_cases(maxlen: int) -> List[tuple]:
    if maxlen not in _C17:
        _C17[maxlen] = c17_sequences(maxlen)
    return _C17[maxlen]


def gen_c17(rng, index: Optional[int] = None, maxlen: int = 4, long: bool = False) -> Dict[str, Any]:
    cfg = base_config(rng)
    steps: List[dict] = []
    tagc = [0]

    def send(ports, late=False):
        tagc[0] += 1
        p = rng.choice(ports)
        st = {"kind": "dgram", "port": p, "payload": valid_dgram(rng, rng.randrange(1, 1 << 24)).hex(), "tag": tagc[0]}
        if late:
            st["delay"] = round(rng.choice([0.0, 0.0, 0.0, 0.000001, 0.001, 0.5]), 6)
        steps.append(st)
        if not late:
            steps.append({"kind": "sleep", "s": rng.choice([0.01, 0.01, 1.5])})

    if index is not None:
        cfg["ports"] = [20002, 20003]
        ports = cfg["ports"]
        for a in c17_cases(maxlen)[index % len(c17_cases(maxlen))]:
            if a in ("start", "start!"):
                steps.append({"kind": rng.choice(["start", "start", "aenter"])})
            elif a == "stop":
                if rng.random() < 0.5:
                    send(ports, late=True)          # a datagram in flight / queued / just read when stop is called
                    for _ in range(rng.choice([0, 1, 2, 2, 3, 4])):
                        steps.append({"kind": "sleep", "s": 0.0})
                steps.append({"kind": rng.choice(["stop", "stop", "aexit"]), "exc": rng.random() < 0.3,
                              "exc_kind": rng.choice(["plain"] + BODY_EXCEPTION_KINDS)})
            elif a == "send":
                send(ports)
            elif a.startswith("occupy"):
                steps.append({"kind": "occupy", "port": ports[int(a[-1])]})
            else:
                steps.append({"kind": "release", "port": ports[int(a[-1])]})
        steps.append({"kind": "sleep", "s": 1.0})
        return {"engine": "udp", "config": cfg, "steps": uidify(steps)}
    k = rng.randrange(1, 5)
    cfg["ports"] = rng.choice([None, rng.sample(ALL_PORTS + [30001, 30002], k)])
    if cfg["ports"] and rng.random() < 0.06:
        # a port number no socket can be bound to: start must fail like on a busy port, and leave nothing behind
        cfg["ports"].insert(rng.randrange(len(cfg["ports"]) + 1), rng.choice([70000, 65536, -1]))
    ports = cfg["ports"] or ALL_PORTS
    running = False
    occ: set = set()
    for _ in range(rng.randrange(80, 200) if long else rng.randrange(1, 14)):
        r = rng.random()
        if r < 0.25 and (not running or rng.random() < 0.15):
            steps.append({"kind": rng.choice(["start", "aenter"])})
            running = not (occ & set(ports)) and not running
        elif r < 0.5:
            if rng.random() < 0.5:
                send(ports, late=True)
                for _ in range(rng.choice([0, 1, 2, 2, 3, 4])):
                    steps.append({"kind": "sleep", "s": 0.0})
            steps.append({"kind": rng.choice(["stop", "aexit"]), "exc": rng.random() < 0.3,
                          "exc_kind": rng.choice(["plain"] + BODY_EXCEPTION_KINDS)})
            running = False
        elif r < 0.75:
            send(ports, late=rng.random() < 0.3)
        elif r < 0.8 and rng.random() < 0.3:
            steps.append({"kind": "sockerr", "port": rng.choice(ports), "delay": round(rng.uniform(0, 0.01), 6), "err": rng.choice(SOCKERRS)})
            steps.append({"kind": "sleep", "s": 0.05})
        elif r < 0.88 and not running:
            p = rng.choice(ports)
            steps.append({"kind": "occupy", "port": p})
            occ.add(p)
        elif occ:
            p = rng.choice(sorted(occ))
            steps.append({"kind": "release", "port": p})
            occ.discard(p)
        if rng.random() < 0.3:
            steps.append({"kind": "sleep", "s": rng.choice([0.0, 0.001, 0.5])})
    if rng.random() < 0.3:
        cfg["cb_raise"] = [rng.randrange(1, 4)]
    steps.append({"kind": "sleep", "s": 1.0})
    return {"engine": "udp", "config": cfg, "steps": uidify(steps)}
