"""Executes a TCP scenario: real aioswitcher API objects against device models
on the fake network, under the simulated loop and clocks."""
from __future__ import annotations

import asyncio
import datetime as dt
from typing import Any, Dict, List, Optional

from simnet.core import TAG, SimCapExceeded, SimContext, SimDeadlock
from simnet.devices import DeviceModel

STATE_QUERIES = ("get_state", "get_shutter_state", "get_breeze_state")
TYPE1_OPS = ("login", "get_state", "control_device", "set_auto_shutdown", "set_device_name", "get_schedules",
             "delete_schedule", "create_schedule")
TYPE2_OPS = ("login", "stop", "set_position", "get_shutter_state", "get_breeze_state", "control_breeze_device")
LIFECYCLE = ("connect", "disconnect", "aenter", "aexit")


class Op:
    def __init__(self, uid, kind, args):
        self.uid = uid
        self.kind = kind
        self.args = args
        self.units: List[bytes] = []
        self.unit_walls: List[float] = []
        self.app_reads: List[bytes] = []
        self.exchanges = []
        self.outcome: Optional[tuple] = None
        self.wall_lo = self.wall_hi = 0.0
        self.walls: List[float] = []
        self.trace: List[tuple] = []        # ("w", frame bytes) / ("r", bytes the application read), in order
        self.units_sock: List[bytes] = []   # write units as first offered to the socket (a buffering transport may
        self.units_app: List[bytes] = []    # offer them late); byte strings handed to StreamWriter.write
        self.connected_before = None
        self.connected_after = None
        self.sock_closed_after = None
        self.eof_seen_after = None
        self.conn_cid = None
        self.seq0 = self.seq1 = 0
        self.extra: Dict[str, Any] = {}

    def brief(self):
        return {"uid": self.uid, "kind": self.kind, "args": self.args, "units": [u.hex() for u in self.units],
                "reads": [r.hex() for r in self.app_reads], "outcome": self.outcome}


class Client:
    """One simulated user of one API instance."""

    def __init__(self, sim, idx, cfg, device: DeviceModel, api):
        self.sim = sim
        self.idx = idx
        self.cfg = cfg
        self.device = device
        self.api = api
        self.ops: List[Op] = []
        self.cur: Optional[Op] = None
        self.reply_plan: List[dict] = []
        self.send_plan: List[Any] = []
        self.connect_plan = None
        self.conns = []
        self.socks = []
        self.app_writes_seen = False
        self.remote = None
        self.irset = None
        self.flag_samples = 0
        self.flag_without_socket: List[dict] = []
        self.sock_mark = 0           # sockets created before the latest completed disconnect do not count
        sim.wall_watchers.append(self._wall)
        sim.iteration_hooks.append(self._sample_flag)

    def _sample_flag(self):
        """Sampled at every loop iteration: `connected` implies that a socket created since the last disconnect has
        become established.  (Whether it is still open is not asked: the transport closes it on its own once the peer
        has reset the connection, a client may close it itself after a failed operation, and in both cases the flag
        rightly stays up until disconnect; a disconnect in progress may clear the flag a cycle after closing.)"""
        if self.api is None or (self.cur is not None and self.cur.kind in ("disconnect", "aexit")):
            return
        self.flag_samples += 1
        if self.api.connected and len(self.flag_without_socket) < 3 and not any(
                s.conn is not None and s.conn.established for s in self.socks[self.sock_mark:]):
            self.flag_without_socket.append({"seq": self.sim.seq, "during": self.cur.kind if self.cur else None})

    def _wall(self):
        if self.cur is not None:
            w = self.sim.wall()
            self.cur.wall_lo = min(self.cur.wall_lo, w)
            self.cur.wall_hi = max(self.cur.wall_hi, w)
            self.cur.walls.append(w)

    # hooks called from the fake network
    def on_socket(self, sock):
        self.socks.append(sock)

    def on_connect(self, conn):
        if conn not in self.conns:
            self.conns.append(conn)

    def on_write(self, conn, unit):
        if conn not in self.conns:
            self.conns.append(conn)
        if self.cur is not None:
            self._wall()
            self.cur.units_sock.append(unit.data)
            if not self.app_writes_seen:
                self.cur.trace.append(("w", unit.data))
            self.cur.unit_walls.append(self.sim.wall())
            self.cur.conn_cid = conn.cid

    def on_app_write(self, conn, data):
        self.app_writes_seen = True
        if conn not in self.conns:
            self.conns.append(conn)
        if self.cur is not None:
            self._wall()
            self.cur.units_app.append(data)
            self.cur.trace.append(("w", data))
            self.cur.conn_cid = conn.cid

    def on_app_read(self, conn, data):
        if self.cur is not None:
            self.cur.app_reads.append(data)
            self.cur.trace.append(("r", data))

    def on_exchange(self, conn, ex):
        if self.cur is not None:
            self.cur.exchanges.append(ex)


def _enum(cls, name):
    return None if name is None else cls[name]


def summarize(res) -> Any:
    """Public fields of a response object as plain data."""
    if res is None:
        return None
    name = type(res).__name__
    out: Dict[str, Any] = {"cls": name}
    if hasattr(res, "successful"):
        out["successful"] = bool(res.successful)
    if hasattr(res, "unparsed_response"):
        ur = res.unparsed_response
        out["len"] = len(ur) if ur is not None else None
    for f in ("session_id", "time_left", "time_on", "auto_shutdown", "power_consumption", "electric_current",
              "temperature", "target_temperature", "remote_id", "position"):
        if hasattr(res, f):
            out[f] = getattr(res, f)
    for f in ("state", "mode", "fan_level", "swing", "direction"):
        if hasattr(res, f):
            v = getattr(res, f)
            out[f] = getattr(v, "name", repr(v))
    if hasattr(res, "schedules"):
        sch = []
        for s in res.schedules:
            sch.append({"schedule_id": s.schedule_id, "recurring": s.recurring,
                        "days": sorted(d.name for d in s.days), "start_time": s.start_time,
                        "end_time": s.end_time, "duration": s.duration, "display": s.display})
        out["schedules"] = sorted(sch, key=lambda d: d["schedule_id"])
        out["n_schedules"] = len(res.schedules)
    return out


def _days(arg):
    from aioswitcher.schedule import Days
    if arg is None:
        return None
    form = arg.get("form", "set")
    items = [Days[n] for n in arg["names"]]
    if form == "set":
        return set(items)
    if form == "list":
        return list(items)
    if form == "tuple":
        return tuple(items)
    if form == "single":
        return items[0]
    raise ValueError(form)


async def call_op(cl: Client, kind: str, a: Dict[str, Any]):
    from aioswitcher.api import Command
    from aioswitcher.device import DeviceState, DeviceType, ThermostatFanLevel, ThermostatMode, ThermostatSwing
    api = cl.api
    if kind == "login":
        # the bare login is a private helper of the library (the repository's own tests call it): exercise it when
        # it exists with the shape we know, otherwise skip - never judge a refactored private helper
        import inspect
        fn = getattr(api, "_login", None)
        dtype = a.get("device_type")
        args = (DeviceType[dtype],) if dtype else ()
        try:
            inspect.signature(fn).bind(*args)
        except (TypeError, ValueError):
            return "unavailable"
        r = await fn(*args)
        resp = r[1] if isinstance(r, tuple) and len(r) == 2 else r
        if not hasattr(resp, "session_id") or not hasattr(resp, "unparsed_response"):
            return "unavailable"
        return resp
    if kind == "get_state":
        return await api.get_state()
    if kind == "control_device":
        if "minutes" in a:
            return await api.control_device(Command[a["command"]], a["minutes"])
        return await api.control_device(Command[a["command"]])
    if kind == "set_auto_shutdown":
        return await api.set_auto_shutdown(dt.timedelta(seconds=a["seconds"]))
    if kind == "set_device_name":
        return await api.set_device_name(a["name"])
    if kind == "get_schedules":
        return await api.get_schedules()
    if kind == "delete_schedule":
        return await api.delete_schedule(a["slot"])
    if kind == "create_schedule":
        d = _days(a.get("days"))
        if d is None:
            return await api.create_schedule(a["start"], a["end"])
        return await api.create_schedule(a["start"], a["end"], d)
    if kind == "stop":
        return await api.stop()
    if kind == "set_position":
        return await api.set_position(a["position"])
    if kind == "get_shutter_state":
        return await api.get_shutter_state()
    if kind == "get_breeze_state":
        return await api.get_breeze_state()
    if kind == "control_breeze_device":
        kw = {}
        if a.get("state") is not None:
            kw["state"] = DeviceState[a["state"]]
        if a.get("mode") is not None:
            kw["mode"] = ThermostatMode[a["mode"]]
        if a.get("target") is not None:
            kw["target_temp"] = a["target"]
        if a.get("fan") is not None:
            kw["fan_level"] = ThermostatFanLevel[a["fan"]]
        if a.get("swing") is not None:
            kw["swing"] = ThermostatSwing[a["swing"]]
        if a.get("update_state"):
            kw["update_state"] = True
        return await api.control_breeze_device(cl.remote, **kw)
    raise ValueError("unknown op kind %r" % kind)


class BodyError(Exception):
    """The exception a simulated `async with` body raises."""


class BodyBaseError(BaseException):
    """... or one that is not an Exception (like CancelledError or KeyboardInterrupt)."""


# what the body of an `async with` may end with: the exception need not have anything to do with this object
BODY_EXCEPTIONS = {
    "plain": BodyError, "base": BodyBaseError, "cancelled": asyncio.CancelledError, "keyboard": KeyboardInterrupt,
    "systemexit": SystemExit, "generatorexit": GeneratorExit, "runtime": RuntimeError, "value": ValueError,
    "key": KeyError, "oserror": OSError, "connection": ConnectionError, "reset": ConnectionResetError,
    "refused": ConnectionRefusedError, "aborted": ConnectionAbortedError, "pipe": BrokenPipeError,
    "timeout": TimeoutError, "eof": EOFError, "stopasynciteration": StopAsyncIteration, "memory": MemoryError,
}
BODY_EXCEPTION_KINDS = sorted(BODY_EXCEPTIONS)


def body_exception_class(kind):
    return BODY_EXCEPTIONS.get(kind, BodyError)


async def exec_step(cl: Client, st: Dict[str, Any]):
    sim = cl.sim
    kind = st["kind"]
    if st.get("gap"):
        await asyncio.sleep(st["gap"])
    if kind == "sleep":
        await asyncio.sleep(st["s"])
        return
    if kind == "wall_jump":
        sim.wall_jump(st["s"])
        return
    if kind == "mutate":
        cl.device.state.update(st["fields"])
        sim.rec("mutate", cl.idx, sorted(st["fields"].items()))
        return
    if cl.api is None:
        cl.api = cl.make_api()
        sim.rec("construct", cl.idx)
    if kind == "aexit" and not getattr(cl, "entered", False):
        # Python leaves an async context only after entering it succeeded; an unpaired step is the explicit call
        kind = "disconnect"
    op = Op(st.get("uid"), kind, st.get("args", {}))
    cl.ops.append(op)
    op.seq0 = sim.seq
    op.wall_lo = op.wall_hi = sim.wall()
    op.walls.append(sim.wall())
    op.connected_before = bool(cl.api.connected)
    cl.reply_plan = [dict(r) if r else None for r in st.get("replies", [])]
    cl.send_plan = list(st.get("sends", []))
    cl.connect_plan = st.get("connect")
    cl.cur = op
    jd = st.get("jump_during")
    if jd:
        sim.at(jd["after"], lambda: sim.wall_jump(jd["s"]))
    sim.rec("op", cl.idx, op.uid, kind, "invoke")
    sim.mark("u%d" % cl.idx, kind)
    try:
        if kind == "connect":
            await cl.api.connect()
            res = None
        elif kind == "disconnect":
            await cl.api.disconnect()
            res = None
        elif kind == "aenter":
            r = await cl.api.__aenter__()
            cl.entered = True
            op.extra["returned_self"] = r is cl.api
            res = None
        elif kind == "aexit":
            cl.entered = False
            r = None
            if st.get("exc"):
                ecls = body_exception_class(st.get("exc_kind"))
                e = ecls("body failed")
                try:
                    r = await cl.api.__aexit__(ecls, e, None)
                except BaseException as got:  # noqa
                    # an __aexit__ that re-raises the very exception it was handed has not failed
                    if got is not e:
                        raise
                    op.extra["reraised_body_exception"] = True
            else:
                r = await cl.api.__aexit__(None, None, None)
            op.extra["swallowed"] = bool(r)
            res = None
        elif st.get("timeout"):
            # the caller gives up on the operation (asyncio.wait_for cancels it)
            res = await asyncio.wait_for(call_op(cl, kind, op.args), st["timeout"])
        else:
            res = await call_op(cl, kind, op.args)
        op.outcome = ("ok", summarize(res) if res != "unavailable" else "unavailable")
    except (asyncio.CancelledError, KeyboardInterrupt, SystemExit, SimDeadlock, SimCapExceeded):
        raise
    except BaseException as e:  # noqa
        op.outcome = ("exc", type(e).__name__, str(e)[:160], [c.__name__ for c in type(e).__mro__])
    finally:
        sim.next_tag = None
        cl.cur = None
        cl._wall_final = sim.wall()
    op.wall_hi = max(op.wall_hi, sim.wall())
    op.wall_lo = min(op.wall_lo, sim.wall())
    op.walls.append(sim.wall())
    op.connected_after = bool(cl.api.connected)
    op.seq1 = sim.seq
    if kind in LIFECYCLE:
        for _ in range(3):
            await asyncio.sleep(0)
        op.extra["socks"] = [(s.fd, s.closed, s.conn.cid if s.conn else None,
                              bool(s.conn and s.conn.client_fin)) for s in cl.socks]
        op.extra["connected_settled"] = bool(cl.api.connected)
        if kind in ("disconnect", "aexit"):
            cl.sock_mark = len(cl.socks)
    sim.rec("op", cl.idx, op.uid, kind, "return", op.outcome[0], op.outcome[1] if op.outcome[0] == "exc" else None)


class TcpRun:
    def __init__(self):
        self.sim = None
        self.devices: List[DeviceModel] = []
        self.clients: List[Client] = []
        self.deadlock: Optional[str] = None
        self.cap: Optional[str] = None
        self.digest = ""
        self.sig = ""
        self.warnings: List[str] = []
        self.mono_end = 0.0


def run(scn: Dict[str, Any]) -> TcpRun:
    from aioswitcher.api import SwitcherType1Api, SwitcherType2Api
    from aioswitcher.api.remotes import SwitcherBreezeRemote
    cfg = scn["config"]
    out = TcpRun()
    import logging
    lg = logging.getLogger("aioswitcher")
    old_level = lg.level
    # the application's logging configuration is part of the environment
    lg.setLevel({"DEBUG": logging.DEBUG, "INFO": logging.INFO}.get(cfg.get("log"), logging.WARNING))
    try:
        return _run(scn, cfg, out, SwitcherType1Api, SwitcherType2Api, SwitcherBreezeRemote)
    finally:
        lg.setLevel(old_level)


def _run(scn, cfg, out, SwitcherType1Api, SwitcherType2Api, SwitcherBreezeRemote):
    with SimContext(cfg.get("sched", 0), cfg.get("epoch0", 1_600_000_000), cfg.get("tz"), tz_form=cfg.get("tz_form")) as ctx:
        sim = ctx.sim
        out.sim = sim
        for i, d in enumerate(cfg["devices"]):
            d = dict(d)
            for c in cfg["clients"]:
                if c["device"] == i and c.get("irset") is not None:
                    # the thermostat model obeys the IR codes of the remote its user holds
                    d["ir_table"] = {w["Para"] + "|" + w["HexCode"]: w["Key"] for w in c["irset"]["IRWaveList"]}
                    d["ir_toggle"] = c["irset"]["OnOffType"] == 1
                    from refs.irsets import SPECIAL_IDS
                    d["ir_special"] = c["irset"]["IRSetID"] in SPECIAL_IDS
            out.devices.append(DeviceModel(sim, d, salt=cfg.get("sched", 0) * 16 + i))
        for i, c in enumerate(cfg["clients"]):
            dev = out.devices[c["device"]]
            cls = SwitcherType1Api if c["type"] == 1 else SwitcherType2Api
            # the first client's object exists from the start; later clients' objects are constructed when their
            # user first acts (so that constructing an object while others are in use is part of the run)
            make = (lambda cls=cls, c=c, dev=dev: cls(c.get("ip", dev.ip), c["id"], c["key"]))
            cl = Client(sim, i, c, dev, make() if i == 0 else None)
            cl.make_api = make
            if c.get("irset") is not None:
                cl.irset = c["irset"]
                cl.remote = SwitcherBreezeRemote(c["irset"])
            out.clients.append(cl)
        steps_by_client: Dict[int, List[dict]] = {i: [] for i in range(len(out.clients))}
        for st in scn["steps"]:
            steps_by_client[st.get("client", 0)].append(st)

        async def run_client(cl: Client):
            TAG.set(cl)          # task-local: every socket this client's task (or a child of it) creates is its own
            for st in steps_by_client[cl.idx]:
                await exec_step(cl, st)

        async def main():
            loop = asyncio.get_running_loop()
            tasks = [loop.create_task(run_client(cl), name="client%d" % cl.idx) for cl in out.clients]
            for t in tasks:
                await t
            # let every stalled peer start reading again, so that whatever a graceful close still has buffered can
            # be flushed before the final look at the wire
            pending_stall = max([c.stall_until_us for cl in out.clients for c in cl.conns] + [0]) - sim.mono_us
            if pending_stall > 0:
                await asyncio.sleep(pending_stall / 1e6 + 0.01)
            for _ in range(6):
                await asyncio.sleep(0)

        try:
            ctx.run(main())
        except SimDeadlock as e:
            out.deadlock = str(e)
            sim.rec("deadlock")
        except SimCapExceeded as e:
            out.cap = str(e)
        # post-state observations needed by lifecycle oracles
        for cl in out.clients:
            # an operation's frames are the byte strings it handed to StreamWriter.write; if the library does not go
            # through StreamWriter at all, the write units seen at the socket
            for op in cl.ops:
                op.units = list(op.units_app if cl.app_writes_seen else op.units_sock)
            cl.final_units = [(c.cid, u.idx, u.acc, len(u.data), u.data) for c in cl.conns for u in c.units]
            cl.final_connected = bool(cl.api.connected) if cl.api is not None else False
            cl.final_socks = [(c.cid, c.sock.closed, c.client_fin) for c in cl.conns]
        out.digest = sim.digest()
        out.sig = sim.schedule_signature()
        out.mono_end = sim.mono()
    return out
