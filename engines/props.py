"""Property registry: which workload, oracle and strata decide each property."""
from __future__ import annotations

from typing import Dict, List

from simnet.framework import Prop, Stratum
from . import tcp_gen as tg
from . import tcp_oracles as to
from . import udp_gen as ug
from . import udp_oracles as uo
from . import clock_gen as cg
from . import clock_oracles as co

REAL_TCP = ("real: all of aioswitcher from the working tree, asyncio SelectorEventLoop core, tasks, streams, "
            "_SelectorSocketTransport, sock_connect, binascii.crc_hqx, struct; stub: FakeSocket/SimSelector/SimNet "
            "(OS socket layer and TCP delivery), virtual monotonic clock, wall clock via time_machine, TZ, device "
            "models (heater/plug/runner/breeze), the user issuing operations")


import os


def scale(tier: str, quick: int, thorough: int) -> int:
    n = quick if tier == "quick" else thorough
    return max(1, int(n * float(os.environ.get("VERIF_SCALE", "1"))))


def c01_strata(tier: str) -> List[Stratum]:
    return [
        Stratum("mixed", scale(tier, 9000, 600000),
                lambda r, i: tg.gen_mixed(r, r.choice([1, 1, 2]), 8, ["ok"], True, True)),
        Stratum("faulty-replies", scale(tier, 4000, 300000),
                lambda r, i: tg.gen_mixed(r, 1, 6, ["ok", "ok", "ok", "eof", "truncate", "garbage", "extra", "segment"], True, False)),
        Stratum("thermostat", scale(tier, 5000, 400000), lambda r, i: tg.gen_c16(r)),
        Stratum("stalled-send", scale(tier, 3000, 200000), lambda r, i: tg.gen_c01_stall(r)),
        Stratum("names", scale(tier, 3000, 200000),
                lambda r, i: tg.gen_mixed(r, 1, 6, ["ok"], False, False, kinds=[r.choice(tg.TYPE1_KINDS)],
                                          op_filter=lambda o: o == "set_device_name")),
        Stratum("long-lived", scale(tier, 120, 6000), lambda r, i: tg.gen_long(r, r.randrange(150, 400)),
                note="150-400 operations on one API object with occasional reconnects: state that builds up"),
    ]


def c02_strata(tier: str) -> List[Stratum]:
    return [
        Stratum("args", scale(tier, 14000, 900000),
                lambda r, i: tg.gen_mixed(r, 1, 10, ["ok"], False, True, zone_sensitive=True,
                                          kinds=[r.choice(["heater", "plug", "heater", "runner", "breeze"])],
                                          op_filter=lambda o: o not in ("login", "control_breeze_device"))),
        Stratum("schedules", scale(tier, 5000, 400000),
                lambda r, i: tg.gen_mixed(r, 1, 8, ["ok"], False, True, zone_sensitive=True, kinds=["heater"],
                                          op_filter=lambda o: o in ("create_schedule", "delete_schedule"))),
        Stratum("long-lived", scale(tier, 100, 5000), lambda r, i: tg.gen_long(r, r.randrange(150, 400), [r.choice(["heater", "plug", "runner"])])),
    ]


def c03_strata(tier: str) -> List[Stratum]:
    return [
        Stratum("pairs", tg.C03_PAIR_CASES * scale(tier, 1, 20), lambda r, i: tg.gen_c03_pairs(r, i), systematic=True,
                note="every op sequence of length <= 2 on one instance and every cross-instance concurrent pair"),
        Stratum("triples", tg.c03_triple_count() * scale(tier, 1, 10), lambda r, i: tg.gen_c03_triples(r, i), systematic=True,
                note="every op sequence of length 3 on one instance"),
        Stratum("random", scale(tier, 9000, 900000),
                lambda r, i: tg.gen_mixed(r, r.choice([1, 2, 2]), 20 if r.random() < 0.2 else 6, ["ok"], True, True,
                                          same_device=r.random() < 0.3)),
        Stratum("faulty", scale(tier, 3000, 300000),
                lambda r, i: tg.gen_mixed(r, r.choice([1, 2]), 6, ["ok", "ok", "ok", "segment", "extra", "truncate", "eof"], False, True)),
        Stratum("three-to-four-instances", scale(tier, 1500, 200000),
                lambda r, i: tg.gen_mixed(r, r.choice([3, 4]), 5, ["ok"], True, True, same_device=r.random() < 0.4)),
        Stratum("long-lived", scale(tier, 120, 6000), lambda r, i: tg.gen_long(r, r.randrange(150, 400))),
    ]


def c08_strata(tier: str) -> List[Stratum]:
    return [Stratum("states", scale(tier, 25000, 1500000), lambda r, i: tg.gen_c08(r)),
            Stratum("long-lived", scale(tier, 100, 5000), lambda r, i: tg.gen_long(r, r.randrange(150, 400)))]


def c09_strata(tier: str) -> List[Stratum]:
    n = tg.c09_case_count()
    return [
        Stratum("systematic", n * scale(tier, 1, 8), lambda r, i: tg.gen_c09_systematic(r, i), systematic=True,
                note="every operation x every step x {eof, extra, every prefix length 1..109, one corrupted byte at every offset 0..109}"),
        Stratum("random", scale(tier, 16000, 1200000),
                lambda r, i: tg.gen_mixed(r, 1, 6, ["ok", "eof", "truncate", "garbage", "garbage", "corrupt", "extra", "segment"],
                                          False, False)),
    ]


def c10_strata(tier: str) -> List[Stratum]:
    return [Stratum("schedules", scale(tier, 30000, 1200000), lambda r, i: tg.gen_c10(r))]


def c16_strata(tier: str) -> List[Stratum]:
    return [
        Stratum("subsets-systematic", len(tg.C16_CASES) * scale(tier, 2, 40), lambda r, i: tg.gen_c16_systematic(r, i),
                systematic=True, note="all 2^5 subsets of requested settings x {plain, toggle} x {separate swing or not} x "
                                      "update-only flag x an empty reply at step 1..4 or none (1280 cases)"),
        Stratum("eof-at-step", scale(tier, 3000, 200000), lambda r, i: tg.gen_c16(r, eof_step=i % 4), systematic=False),
        Stratum("control", scale(tier, 9000, 1200000), lambda r, i: tg.gen_c16(r)),
    ]


def c18_strata(tier: str) -> List[Stratum]:
    m = 4 if tier == "quick" else 6
    n = len(tg.life_cases(m))
    return [
        Stratum("all-sequences", n, lambda r, i: tg.gen_c18(r, i, m), systematic=True,
                note="every well-behaved action sequence up to length %d over an 11-letter alphabet" % m),
        Stratum("random", scale(tier, 20000, 600000), lambda r, i: tg.gen_c18(r)),
        Stratum("two-objects", scale(tier, 3000, 200000), lambda r, i: tg.gen_c18_two(r),
                note="two API objects for the same device, lifecycles interleaved"),
        Stratum("long-lived", scale(tier, 100, 5000), lambda r, i: tg.gen_c18(r, long=True),
                note="80-200 lifecycle actions on one API object"),
    ]


REAL_UDP = ("real: all of aioswitcher from the working tree (SwitcherBridge, UdpClientProtocol, DatagramParser, device "
            "classes), asyncio SelectorEventLoop core, create_datagram_endpoint, _SelectorDatagramTransport, warnings, "
            "logging; stub: FakeSocket/SimSelector/SimNet (UDP port table, delivery, loss/dup/reorder, socket errors), "
            "virtual clocks, broadcast senders built on the reference encoder, the user's callback")


def c05_strata(tier: str) -> List[Stratum]:
    return [Stratum("broadcasts", scale(tier, 16000, 2000000), lambda r, i: ug.gen_c05(r)),
            Stratum("long-lived", scale(tier, 100, 5000), lambda r, i: ug.gen_c05(r, long=True),
                    note="200-600 broadcasts to one running bridge")]


def c06_strata(tier: str) -> List[Stratum]:
    return [
        Stratum("every-length", 134 * scale(tier, 1, 20), lambda r, i: ug.gen_c06(r, i, True), systematic=True,
                note="every length 0..400 with and without the magic (802 cases, 6 per scenario)"),
        Stratum("model-codes", 4096, lambda r, i: ug.gen_c06_models(r, i), systematic=True,
                note="all 65 536 model codes in otherwise valid frames, 16 per scenario"),
        Stratum("random", scale(tier, 20000, 800000), lambda r, i: ug.gen_c06(r, i, False)),
    ]


def c07_strata(tier: str) -> List[Stratum]:
    return [Stratum("traffic", scale(tier, 14000, 2000000), lambda r, i: ug.gen_c07(r)),
            Stratum("long-lived", scale(tier, 100, 5000), lambda r, i: ug.gen_c07(r, long=True),
                    note="200-600 datagrams to one running bridge")]


def c17_strata(tier: str) -> List[Stratum]:
    m = 5 if tier == "quick" else 7
    n = len(ug.c17_cases(m))
    return [
        Stratum("all-sequences", n, lambda r, i: ug.gen_c17(r, i, m), systematic=True,
                note="every well-behaved sequence up to length %d over {start, stop, send, occupy i, release i} on 2 ports" % m),
        Stratum("random", scale(tier, 20000, 900000), lambda r, i: ug.gen_c17(r)),
        Stratum("several-bridges", scale(tier, 8000, 300000), lambda r, i: ug.gen_c17_two(r),
                note="two or three bridge objects in one process on overlapping or disjoint ports"),
        Stratum("long-lived", scale(tier, 100, 5000), lambda r, i: ug.gen_c17(r, long=True),
                note="80-200 lifecycle actions on one bridge object"),
    ]


REAL_CLOCK = ("real: aioswitcher.schedule.tools / parser from the working tree, libc mktime/localtime/strftime under the "
              "chosen TZ, datetime; stub: wall clock (time_machine driven by the simulator clock), TZ per run; reference: "
              "zoneinfo arithmetic")


def c11_strata(tier: str) -> List[Stratum]:
    return [
        Stratum("sampled-minutes", scale(tier, 6000, 60000), lambda r, i: cg.gen_c11(r, False)),
        Stratum("all-minutes", scale(tier, 300, 20000), lambda r, i: cg.gen_c11(r, True)),
        Stratum("ticking-clock", scale(tier, 3000, 200000), lambda r, i: cg.gen_c11(r, False, ticking=True),
                note="the wall clock advances on every read, starting a few reads before a local midnight"),
    ]


def c13_strata(tier: str) -> List[Stratum]:
    return [Stratum("grid", scale(tier, 40000, 1500000), lambda r, i: cg.gen_c13(r)),
            Stratum("ticking-clock", scale(tier, 6000, 300000), lambda r, i: cg.gen_c13(r, ticking=True),
                    note="the wall clock advances on every read (1 ms, 0.4 s or 30 s per read), starting a few reads "
                         "before a local midnight: code that reads the clock twice may see two days")]


def build() -> Dict[str, Prop]:
    P: Dict[str, Prop] = {}
    P["C11"] = Prop("C11", "exploration", co.judge_c11, c11_strata,
                    "seeded (zone, instant) pairs over 24 zones, instants biased to DST transitions/year ends/leap days/local "
                    "midnight, with clock jumps between batches; 96 or all 1440 HH:MM encoded and decoded under the virtual clock",
                    REAL_CLOCK, ["probe:ambiguous-local-time", "grey:nonexistent-local-time", "judged-must-reject"])
    P["C13"] = Prop("C13", "exploration", co.judge_c13, c13_strata,
                    "seeded (zone, instant) x all 128 day sets x start minutes around now/00:00/23:59, clock steps and jumps "
                    "between queries; text parsed and compared with a zoneinfo-based reference",
                    REAL_CLOCK, ["probe:local-weekday-differs-from-utc", "probe:full-week-ahead", "probe:sunday-to-monday",
                                 "probe:clock-crossed-midnight-during-call"])
    P["C05"] = Prop("C05", "exploration", uo.judge_c05, c05_strata,
                    "seeded device states of all 9 types encoded by the reference broadcast encoder (checked against the "
                    "real captures), sent through the fake network with delay/dup/reorder/drop to a running bridge; every "
                    "delivered object compared field by field",
                    REAL_UDP, ["probe:off-normalisation", "probe:type:BREEZE", "probe:type:RUNNER", "probe:type:POWER_PLUG"])
    P["C06"] = Prop("C06", "exploration", uo.judge_c06, c06_strata,
                    "every length 0..400 with/without magic, sampled or all model codes in valid frames, random junk; datagrams "
                    "spaced apart so callbacks, warnings, log records and loop-exception calls are attributable",
                    REAL_UDP, ["judged-gate-fail", "judged-unknown-model", "probe:right-length-wrong-magic", "probe:magic-wrong-length"])
    P["C07"] = Prop("C07", "exploration", uo.judge_c07, c07_strata,
                    "seeded datagram sequences (valid of every family + six junk kinds) on 1-4 ports with drop/dup/reorder/"
                    "receive-queue overflow/socket errors and callbacks raising on chosen invocations; callback log must be an "
                    "interleaving of the per-port arrival logs",
                    REAL_UDP, ["probe:callback-raised", "probe:duplicate-arrival", "probe:reordered-pair",
                               "probe:junk-between-valid", "probe:socket-error", "probe:multi-port",
                               "probe:second-bridge-object", "probe:mirrored-to-second-port"])
    P["C17"] = Prop("C17", "exploration", uo.judge_c17, c17_strata,
                    "all short start/stop/send/occupy/release sequences on 2 ports + seeded random ones on 1-4 ports, with "
                    "datagrams in flight or queued at stop; running flag and port table vs lifecycle model after every action",
                    REAL_UDP, ["probe:start-with-busy-port", "probe:restart", "probe:stop-while-stopped",
                               "probe:several-bridge-objects", "probe:start-while-running"])
    P["C01"] = Prop("C01", "exploration", to.judge_c01, c01_strata,
                    "seeded random operation sequences (all 15 op kinds, both API types, 1-2 clients) against device models; "
                    "every application write seen at the fake socket is judged as one frame",
                    REAL_TCP, ["probe:frame>=256", "probe:non-ascii-name", "probe:type2-length-recomputed",
                              "probe:operation-abandoned-by-caller"])
    P["C02"] = Prop("C02", "exploration", to.judge_c02, c02_strata,
                    "seeded boundary-biased arguments for every type-1 and shutter operation; command frame compared "
                    "byte-for-byte with an independent reference layout; out-of-domain arguments must raise with no command frame",
                    REAL_TCP, ["probe:must-reject:", "probe:op:create_schedule", "probe:op:set_position"])
    P["C03"] = Prop("C03", "exploration", to.judge_c03, c03_strata,
                    "systematic op pairs + seeded random sequences on 1-2 API instances with interleaved exchanges; per-operation "
                    "frame log checked for login-first, session of this very login, current timestamp, configured id",
                    REAL_TCP, ["probe:overlapping-operations", "probe:two-instances"])
    P["C08"] = Prop("C08", "exploration", to.judge_c08, c08_strata,
                    "seeded device-model states (re-randomised between queries and after control operations) encoded by the "
                    "reference reply codec, pushed through the real TCP path and compared field by field",
                    REAL_TCP)
    P["C09"] = Prop("C09", "fault_enumeration", to.judge_c09, c09_strata,
                    "systematic single reply fault at every step of every operation + seeded random multi-fault sequences",
                    REAL_TCP, ["reply:eof", "reply:truncate", "reply:garbage", "reply:corrupt", "judged-empty-login"])
    P["C10"] = Prop("C10", "exploration", to.judge_c10, c10_strata,
                    "device model holding 0-8 schedule records across zones/dates (biased to DST transitions); list/create/"
                    "delete/clock-jump sequences; parsed set compared with zoneinfo-based reference; created records read back",
                    REAL_TCP + "; libc mktime/localtime under the chosen TZ are real", ["judged-readback", "probe:empty-list"])
    P["C16"] = Prop("C16", "fault_enumeration", to.judge_c16, c16_strata,
                    "Breeze model with random state, generated IR sets (toggle/plain x separate-swing or not), every subset of "
                    "requested settings, update-only flag, EOF injected at each of the up to 4 steps",
                    REAL_TCP, ["judged-eof-step-1", "judged-eof-step-2", "judged-eof-step-3", "probe:update-only",
                               "judged-nothing-actionable"])
    P["C18"] = Prop("C18", "exploration", to.judge_c18, c18_strata,
                    "all well-behaved lifecycle action sequences up to a bound + seeded random longer ones, with refused "
                    "connects, EOF and RST during operations; connected flag vs model and socket closure after every action",
                    REAL_TCP, ["probe:refused-connect", "probe:reconnect", "probe:body-exception",
                               "probe:disconnect-while-disconnected"])
    return P
