"""Executes a UDP scenario: the real SwitcherBridge on fake datagram sockets."""
from __future__ import annotations

import asyncio
import logging
import os
import socket as _rs
import warnings
from typing import Any, Dict, List, Optional

from simnet.core import CURRENT, FakeSocket, SimCapExceeded, SimContext, SimDeadlock


class CallbackError(Exception):
    """What the simulated user's callback raises when the scenario says so."""


class BodyError(Exception):
    pass


class BodyBaseError(BaseException):
    pass


def summarize_device(dev) -> Dict[str, Any]:
    out: Dict[str, Any] = {"cls": type(dev).__name__}
    for f in ("device_id", "device_key", "ip_address", "mac_address", "name", "power_consumption", "electric_current",
              "remaining_time", "auto_shutdown", "position", "temperature", "target_temperature", "remote_id"):
        if hasattr(dev, f):
            out[f] = getattr(dev, f)
    for f in ("device_type", "device_state", "direction", "mode", "fan_level", "swing"):
        if hasattr(dev, f):
            v = getattr(dev, f)
            out[f] = getattr(v, "name", repr(v))
    return out


class _Unconstructible:
    """Stands in for a bridge whose constructor refused its arguments."""

    is_running = False

    def __init__(self, exc):
        self.exc = exc

    async def start(self):
        raise self.exc

    async def stop(self):
        return None

    async def __aenter__(self):
        raise self.exc

    async def __aexit__(self, *a):
        return None


class UdpRun:
    def __init__(self):
        self.sim = None
        self.callbacks: List[Dict[str, Any]] = []
        self.actions: List[Dict[str, Any]] = []
        self.warnings: List[Dict[str, Any]] = []
        self.logrecs: List[Dict[str, Any]] = []
        self.sent: List[Dict[str, Any]] = []
        self.deadlock = None
        self.cap = None
        self.digest = ""
        self.sig = ""
        self.mono_end = 0.0
        self.ports: List[int] = []
        self.arrivals: Dict[int, List[tuple]] = {}
        self.taken: List[tuple] = []
        self.exc_calls: List[dict] = []
        self.stop_returned_seq: List[int] = []


LIB_SRC = os.path.abspath(os.path.join(os.environ.get("VERIF_REPO", "/repo"), "src")) + os.sep


class _LogTap(logging.Handler):
    def __init__(self, run: UdpRun):
        super().__init__(level=logging.WARNING)
        self.run = run

    def emit(self, record):
        sim = self.run.sim
        # whatever the library logs, on its own loggers or (by mistake) on the root logger
        if not (record.name.startswith("aioswitcher") or os.path.abspath(record.pathname).startswith(LIB_SRC)):
            return
        self.run.logrecs.append({"seq": sim.seq, "level": record.levelname, "msg": record.getMessage()[:120],
                                 "taken": len(sim.net.taken), "arrived": sim.net_arrival_count()})
        sim.rec("log", record.levelname, record.getMessage()[:60])


def run(scn: Dict[str, Any]) -> UdpRun:
    from aioswitcher.bridge import SwitcherBridge
    cfg = scn["config"]
    out = UdpRun()
    raise_on = set(cfg.get("cb_raise", []))
    with SimContext(cfg.get("sched", 0), cfg.get("epoch0", 1_600_000_000), cfg.get("tz"), tz_form=cfg.get("tz_form")) as ctx:
        sim = ctx.sim
        out.sim = sim
        sim.net.rxq_limit = cfg.get("rxq_limit", 64)
        sim.net_arrival_count = lambda: len(sim.net.arrival_order)

        def make_callback(bidx):
            def on_device(dev):
                n = len(out.callbacks) + 1
                summary = summarize_device(dev)
                sim.rec("callback", n, summary.get("device_id"), bidx)      # (stamps a fresh sequence number)
                rec = {"n": n, "seq": sim.seq, "mono": sim.mono_us, "dev": summary, "bridge": bidx,
                       "taken": len(sim.net.taken), "arrived": sim.net_arrival_count(), "running": None}
                out.callbacks.append(rec)
                sim.mark("cb", rec["dev"].get("cls", "?"))
                if n in raise_on:
                    sim.fire("cb_raise")
                    raise CallbackError("callback %d failed" % n)
            # the user's callback need not be a plain function
            kind = cfg.get("cb_kind", "function")
            if kind == "partial":
                import functools
                return functools.partial(lambda _extra, dev: on_device(dev), "extra")
            if kind == "method":
                class User:
                    def seen(self, dev):
                        return on_device(dev)
                return User().seen
            if kind == "callable":
                class Seen:
                    __slots__ = ()

                    def __call__(self, dev):
                        return on_device(dev)
                return Seen()
            if kind == "lambda":
                return lambda dev: on_device(dev)
            return on_device

        # one bridge by default; several bridge objects in one process when the scenario says so
        specs = cfg.get("bridges") or [{"ports": cfg.get("ports")}]
        bridges = []
        out.bridge_ports = []
        for bidx, bs in enumerate(specs):
            ports = bs.get("ports")
            try:
                bridges.append(SwitcherBridge(make_callback(bidx), list(ports)) if ports is not None
                               else SwitcherBridge(make_callback(bidx)))
            except Exception as e:  # noqa
                # a constructor that rejects the port list outright: every later start on it "fails, nothing held"
                bridges.append(_Unconstructible(e))
            out.bridge_ports.append(list(ports) if ports is not None else [20002, 10002, 20003, 10003])
        bridge = bridges[0]
        out.ports = out.bridge_ports[0]
        foreign: Dict[int, FakeSocket] = {}
        tap = _LogTap(out)
        lg = logging.getLogger("aioswitcher")
        logging.getLogger().addHandler(tap)        # (records of the library's own loggers propagate to it)
        old_level = lg.level
        # the application's logging configuration is part of the environment: WARNING (library default), or the
        # user has turned on INFO / DEBUG for the library
        lg.setLevel({"DEBUG": logging.DEBUG, "INFO": logging.INFO}.get(cfg.get("log"), logging.WARNING))

        def showwarning(message, category, filename, lineno, file=None, line=None):
            if issubclass(category, ResourceWarning):
                return      # emitted by the garbage collector for objects of earlier runs: timing is not ours
            out.warnings.append({"seq": sim.seq, "category": category.__name__, "msg": str(message)[:120],
                                 "taken": len(sim.net.taken), "arrived": sim.net_arrival_count(),
                                 # (a deprecation warning raised from the library's own source is the library's doing)
                                 "deprecation": issubclass(category, (DeprecationWarning, PendingDeprecationWarning))
                                 and not os.path.abspath(str(filename)).startswith(LIB_SRC)})
            sim.rec("warning", category.__name__, str(message)[:60])

        def held_ports(bidx=0):
            return sorted(p for p in set(out.bridge_ports[bidx]) if any(
                h.owner == "app" and h.owner_id == ("bridge", bidx) for h in sim.net.udp_holders(p)))

        def busy_for(bidx):
            """Ports of bridge `bidx` that somebody else (a foreign socket or another bridge) holds right now."""
            return sorted(p for p in set(out.bridge_ports[bidx]) if any(
                not (h.owner == "app" and h.owner_id == ("bridge", bidx)) for h in sim.net.udp_holders(p)))

        out.running_samples = 0
        out.snapshots = []
        out.running_but_not_listening = []

        in_stop = [False]
        entered: Dict[int, bool] = {}

        def sample_invariant():
            # sampled at every loop iteration, also while start() is in progress (a stop() in progress may clear
            # the flag a cycle after it closed the sockets: "released as soon as the event loop has cycled")
            if in_stop[0]:
                return
            out.running_samples += 1
            for bidx, b in enumerate(bridges):
                if b.is_running:
                    held = held_ports(bidx)
                    if held != sorted(set(out.bridge_ports[bidx])) and len(out.running_but_not_listening) < 3:
                        out.running_but_not_listening.append({"seq": sim.seq, "held": held, "bridge": bidx})
        sim.iteration_hooks.append(sample_invariant)

        async def settle():
            for _ in range(3):
                await asyncio.sleep(0)

        async def do_step(st):
            kind = st["kind"]
            if st.get("gap"):
                await asyncio.sleep(st["gap"])
            if kind == "sleep":
                await asyncio.sleep(st["s"])
                if st["s"] >= 0.01:
                    # a quiet moment: what every bridge says about itself and what it really holds
                    await settle()
                    out.snapshots.append({"seq": sim.seq, "state": [
                        {"running": bool(ob.is_running), "held": held_ports(k)} for k, ob in enumerate(bridges)]})
                return
            if kind == "wall_jump":
                sim.wall_jump(st["s"])
                return
            if kind == "dgram":
                payload = bytes.fromhex(st["payload"])
                copies = [st.get("delay", 0.0)] + list(st.get("dup", []))
                if st.get("drop"):
                    sim.fire("udp_drop")
                    sim.rec("udp", "dropped", st["port"], st["tag"])
                    out.sent.append({"tag": st["tag"], "port": st["port"], "payload": payload, "dropped": True})
                    return
                out.sent.append({"tag": st["tag"], "port": st["port"], "payload": payload, "dropped": False})
                for i, d in enumerate(copies):
                    if i:
                        sim.fire("udp_dup")
                    sim.net.udp_send(st["port"], payload, st["tag"], d, tuple(st["src"]) if st.get("src") else ("192.168.1.50", 20002))
                if st.get("delay", 0) > 0.05:
                    sim.fire("udp_delay")
                return
            if kind == "sockerr":
                sim.net.udp_error(st["port"], st.get("delay", 0.0), st.get("err", "refused"))
                return
            if kind == "occupy":
                p = st["port"]
                act = {"uid": st.get("uid"), "kind": kind, "port": p}
                if p not in foreign:
                    CURRENT.sim.next_tag = None
                    s = FakeSocket(_rs.AF_INET, _rs.SOCK_DGRAM)
                    s.owner = "foreign"
                    try:
                        s.bind(("0.0.0.0", p))
                        foreign[p] = s
                        sim.fire("port_busy")
                        act["ok"] = True
                    except (OSError, OverflowError):
                        s.close()
                        act["ok"] = False
                out.actions.append(act)
                return
            if kind == "release":
                s = foreign.pop(st["port"], None)
                if s is not None:
                    s.close()
                out.actions.append({"uid": st.get("uid"), "kind": kind, "port": st["port"]})
                return
            # lifecycle actions
            bidx = st.get("bridge", 0)
            b = bridges[bidx]
            if kind == "aexit" and not entered.get(bidx):
                # Python leaves an async context only after entering it succeeded; an unpaired step is the explicit call
                kind = "stop"
            act = {"uid": st.get("uid"), "kind": kind, "bridge": bidx, "seq0": sim.seq, "mono0": sim.mono_us,
                   "foreign": busy_for(bidx)}
            sim.rec("action", kind, bidx, "invoke")
            sim.mark("user%d" % bidx, kind)
            sim.current_owner = ("bridge", bidx)
            # (a start on a running bridge may tear everything down through the same stop path)
            in_stop[0] = kind in ("stop", "aexit") or bool(b.is_running)
            try:
                if kind == "start":
                    await b.start()
                elif kind == "stop":
                    await b.stop()
                elif kind == "aenter":
                    await b.__aenter__()
                    entered[bidx] = True
                elif kind == "aexit":
                    entered[bidx] = False
                    if st.get("exc"):
                        from .tcp_exec import body_exception_class
                        ecls = body_exception_class(st.get("exc_kind"))
                        e = ecls("body failed")
                        try:
                            await b.__aexit__(ecls, e, None)
                        except BaseException as got:  # noqa
                            # an __aexit__ that re-raises the very exception it was handed has not failed
                            if got is not e:
                                raise
                            act["reraised_body_exception"] = True
                    else:
                        await b.__aexit__(None, None, None)
                else:
                    raise ValueError("unknown udp step %r" % kind)
                act["outcome"] = ("ok",)
            except (asyncio.CancelledError, KeyboardInterrupt, SystemExit, SimDeadlock, SimCapExceeded):
                raise
            except BaseException as e:  # noqa
                act["outcome"] = ("exc", type(e).__name__, str(e)[:120], [c.__name__ for c in type(e).__mro__])
            finally:
                sim.current_owner = None
                in_stop[0] = False
            sim.rec("action", kind, bidx, "returned")
            act["seq1"] = sim.seq
            act["mono1"] = sim.mono_us
            act["callbacks_at_return"] = len(out.callbacks)
            act["running_at_return"] = bool(b.is_running)
            act["held_at_return"] = held_ports(bidx)
            await settle()
            act["running"] = bool(b.is_running)
            act["held"] = held_ports(bidx)
            # what the OTHER bridges look like after this action (an action on one object must not disturb another)
            act["others"] = [{"bridge": k, "running": bool(ob.is_running), "held": held_ports(k)}
                             for k, ob in enumerate(bridges) if k != bidx]
            act["callbacks_settled"] = len(out.callbacks)
            sim.rec("action", kind, bidx, "return", act["outcome"][0], act["running"], tuple(act["held"]))
            out.actions.append(act)

        async def main():
            for st in scn["steps"]:
                await do_step(st)
            # drain: let every datagram in flight arrive and be read
            def unread():
                return any(fs.owner == "app" and (fs.rxq or fs.rx_errors) for fs in sim.socks.values())
            for _ in range(3000):
                nxt = sim.next_event_us()
                if nxt is not None:
                    await asyncio.sleep(max(0.0, (nxt - sim.mono_us) / 1e6))
                elif unread():
                    await asyncio.sleep(0)
                else:
                    break
            await settle()
            # an implementation may hand datagrams over through a short timer: give it a virtual second
            await asyncio.sleep(1.0)
            await settle()
            out.final_running = bool(bridge.is_running)
            out.final_held = held_ports()
            out.final_state = [{"running": bool(ob.is_running), "held": held_ports(k)} for k, ob in enumerate(bridges)]
            out.final_callbacks = len(out.callbacks)
            # a last grace period: nothing may be delivered any more
            await asyncio.sleep(5.0)
            await settle()

        with warnings.catch_warnings():
            warnings.simplefilter("always")
            old_show = warnings.showwarning
            warnings.showwarning = showwarning
            try:
                ctx.run(main())
            except SimDeadlock as e:
                out.deadlock = str(e)
            except SimCapExceeded as e:
                out.cap = str(e)
            finally:
                warnings.showwarning = old_show
                logging.getLogger().removeHandler(tap)
                lg.setLevel(old_level)
        out.arrivals = {p: list(v) for p, v in sim.net.arrivals.items()}
        out.arrival_order = list(sim.net.arrival_order)
        out.taken = list(sim.net.taken)
        out.exc_calls = list(sim.exc_handler_calls)
        out.digest = sim.digest()
        out.sig = sim.schedule_signature()
        out.mono_end = sim.mono()
    return out
