"""Seeded generators for the clock engine (C11, C13)."""
from __future__ import annotations

from typing import Any, Dict, List

from refs import localtime
from .tcp_gen import DAYS, ZONES, gen_epoch_zone, gen_hhmm, uidify

BAD = ["", "13", "1300", "ab:cd", "25:00", "12:60", "12:", ":30", "24:00", "99:99", "noon", "x:y", "2100", "7:"]


def gen_c11(rng, full: bool, ticking: bool = False) -> Dict[str, Any]:
    if ticking:
        tick = rng.choice([1_000_000, 400_000_000, 30_000_000_000])
        scn = gen_c11(rng, False)
        scn["config"]["tick_ns"] = tick
        scn["config"]["epoch0"] = near_midnight(rng, scn["config"]["tz"], scn["config"]["epoch0"], tick)
        first = [s for s in scn["steps"] if s["kind"] == "roundtrip"][0]
        first["hhmm"] = first["hhmm"][:rng.randrange(2, 12)]
        scn["steps"] = [first]
        return scn
    tz = rng.choice(ZONES)
    epoch0 = gen_epoch_zone(rng, tz)
    steps: List[dict] = []
    for _ in range(rng.choice([1, 1, 2, 3])):
        if full:
            hh = ["%02d:%02d" % (m // 60, m % 60) for m in range(1440)]
        else:
            hh = set()
            # the hours around a transition today, the day's ends, and a random sample
            d = localtime.local_dt(tz, epoch0)
            for h in (0, 1, 2, 3, 23, d.hour):
                for m in (0, 1, 29, 30, 31, 59, d.minute):
                    hh.add("%02d:%02d" % (h, m))
            while len(hh) < 96:
                hh.add("%02d:%02d" % (rng.randrange(24), rng.randrange(60)))
            hh = sorted(hh)
            rng.shuffle(hh)
        hh = list(hh) + rng.sample(BAD, 3)
        steps.append({"kind": "roundtrip", "hhmm": hh})
        steps.append({"kind": "decode", "epochs": [max(0, min(2**32 - 1, int(epoch0) + rng.randrange(-86400 * 400, 86400 * 400)))
                                                     for _ in range(8)]})
        r = rng.random()
        if r < 0.4:
            steps.append({"kind": "wall_jump", "s": rng.choice([-86400, -3600, -1, 1, 3600, 86400, 86400 * 30, 86400 * 183])})
        elif r < 0.8:
            steps.append({"kind": "sleep", "s": rng.choice([1, 59, 60, 3600, 86400])})
    return {"engine": "clock", "config": clock_config(rng, tz, epoch0), "steps": uidify(steps)}


def near_midnight(rng, tz: str, epoch0: float, tick_ns: int) -> float:
    """An instant a few clock reads before a local midnight (for ticking-clock runs)."""
    import datetime as dt
    d = localtime.local_dt(tz, epoch0)
    nxt = (d + dt.timedelta(days=1)).replace(hour=0, minute=0, second=0, microsecond=0)
    return nxt.timestamp() - rng.choice([0.5, 1, 1.5, 2, 2.5, 3.5, 6]) * tick_ns / 1e9


def clock_config(rng, tz, epoch0):
    import os
    cfg = {"tz": tz, "epoch0": epoch0, "sched": 0}
    if os.path.exists("/usr/share/zoneinfo/" + tz):
        r = rng.random()
        if r < 0.15:
            cfg["tz_form"] = "colon"        # TZ=":Europe/Paris" means the same to libc
        elif r < 0.25:
            cfg["tz_form"] = "path"         # TZ=":/usr/share/zoneinfo/Europe/Paris"
    return cfg


def gen_c13(rng, ticking: bool = False) -> Dict[str, Any]:
    tz = rng.choice(ZONES)
    epoch0 = gen_epoch_zone(rng, tz)
    if ticking:
        tick = rng.choice([1_000_000, 400_000_000, 30_000_000_000])
        scn = gen_c13(rng)
        scn["config"]["tick_ns"] = tick
        scn["config"]["epoch0"] = near_midnight(rng, scn["config"]["tz"], scn["config"]["epoch0"], tick)
        scn["steps"] = [s for s in scn["steps"] if s["kind"] == "next_run"][:rng.randrange(1, 4)]
        return scn
    steps: List[dict] = []
    d = localtime.local_dt(tz, epoch0)
    now_m = d.hour * 60 + d.minute
    for _ in range(rng.randrange(4, 40)):
        mask = rng.randrange(128)
        days = [DAYS[i] for i in range(7) if mask & (1 << i)]
        r = rng.random()
        if r < 0.45:
            sm = (now_m + rng.choice([-2, -1, 0, 1, 2])) % 1440
        elif r < 0.6:
            sm = rng.choice([0, 1, 1438, 1439])
        else:
            sm = rng.randrange(1440)
        st = {"kind": "next_run", "start": "%02d:%02d" % (sm // 60, sm % 60), "days": days}
        if rng.random() < 0.25:
            st["via"] = "schedule"
            st["end"] = gen_hhmm(rng, 0.0)
        elif sm < 600 and rng.random() < 0.3:
            st["start"] = "%d:%02d" % (sm // 60, sm % 60)        # "9:30": a clock time all the same (strptime takes it)
        if not days and rng.random() < 0.5:
            st["omit_days"] = True
        steps.append(st)
        r = rng.random()
        if r < 0.15:
            steps.append({"kind": "sleep", "s": rng.choice([1, 30, 59, 60, 61, 3600, 86400])})
            d2 = localtime.local_dt(tz, epoch0)   # (now_m is only a bias; exactness is the oracle's job)
        elif r < 0.25:
            steps.append({"kind": "wall_jump", "s": rng.choice([-86400 * 3, -86400, -3600, 3600, 86400, 86400 * 2, 86400 * 5])})
    return {"engine": "clock", "config": clock_config(rng, tz, epoch0), "steps": uidify(steps)}
