"""Executes a clock scenario: schedule time functions under the virtual wall clock and a chosen zone."""
from __future__ import annotations

import hashlib
from typing import Any, Dict, List

from simnet.core import SimContext


class ClockRun:
    def __init__(self):
        self.sim = None
        self.obs: List[Dict[str, Any]] = []
        self.digest = ""
        self.sig = ""
        self.mono_end = 0.0
        self.cap = None
        self.tz = "UTC"


def _call(fn, *a):
    try:
        return ("ok", fn(*a))
    except BaseException as e:  # noqa
        if isinstance(e, (KeyboardInterrupt, SystemExit)):
            raise
        return ("exc", type(e).__name__, str(e)[:100])


def run(scn: Dict[str, Any]) -> ClockRun:
    from aioswitcher.schedule import Days, tools
    from aioswitcher.schedule.parser import SwitcherSchedule
    cfg = scn["config"]
    out = ClockRun()
    out.tz = cfg.get("tz") or "UTC"
    with SimContext(cfg.get("sched", 0), cfg["epoch0"], cfg.get("tz"), tick_ns=cfg.get("tick_ns", 0), tz_form=cfg.get("tz_form")) as ctx:
        sim = ctx.sim
        out.sim = sim
        for st in scn["steps"]:
            k = st["kind"]
            if k == "sleep":
                sim.advance_to(sim.mono_us + int(st["s"] * 1_000_000))
                sim.rec("sleep", st["s"])
            elif k == "wall_jump":
                sim.wall_jump(st["s"])
            elif k == "roundtrip":
                for s in st["hhmm"]:
                    w0 = sim.wall()
                    n0 = len(sim.clock_log)
                    enc = _call(tools.time_to_hexadecimal_timestamp, s)
                    w1 = sim.wall()
                    readings = list(sim.clock_log[n0:])
                    dec = None
                    if enc[0] == "ok" and isinstance(enc[1], str):
                        dec = _call(tools.hexadecimale_timestamp_to_localtime, enc[1].encode())
                    out.obs.append({"kind": "roundtrip", "uid": st.get("uid"), "s": s, "wall": w0, "wall1": w1, "walls": readings, "enc": enc, "dec": dec})
                    sim.rec("roundtrip", s, enc, dec)
            elif k == "decode":
                for e in st["epochs"]:
                    hx = int(e).to_bytes(4, "little").hex().encode()
                    dec = _call(tools.hexadecimale_timestamp_to_localtime, hx)
                    out.obs.append({"kind": "decode", "uid": st.get("uid"), "epoch": e, "dec": dec})
                    sim.rec("decode", e, dec)
            elif k == "next_run":
                days = {Days[n] for n in st["days"]}
                w0 = sim.wall()
                n0 = len(sim.clock_log)
                if st.get("via") == "schedule":
                    r = _call(lambda: SwitcherSchedule("0", bool(days), days, st["start"], st.get("end", st["start"])).display)
                elif not days and st.get("omit_days"):
                    r = _call(tools.pretty_next_run, st["start"])
                else:
                    r = _call(tools.pretty_next_run, st["start"], days)
                out.obs.append({"kind": "next_run", "uid": st.get("uid"), "start": st["start"], "days": sorted(st["days"]),
                                "wall": w0, "wall1": sim.wall(), "walls": list(sim.clock_log[n0:]), "res": r})
                sim.rec("next_run", st["start"], sorted(st["days"]), r)
            else:
                raise ValueError("unknown clock step %r" % k)
        out.digest = sim.digest()
        out.sig = hashlib.sha256(("%s|%s" % (out.tz, [o["kind"] for o in out.obs])).encode()).hexdigest()[:16]
        out.mono_end = sim.mono()
    return out
