"""Oracles over a finished UDP run."""
from __future__ import annotations

from typing import Any, Dict, List, Optional, Tuple

from refs import codecs

Viol = Tuple[str, str]


def cnt(c, k, n=1):
    c[k] = c.get(k, 0) + n


def classify(payload: bytes) -> str:
    """valid | reject-gate | reject-model | grey."""
    if not codecs.gate(payload):
        return "reject-gate"
    if payload[74:76].hex() not in codecs.MODELS:
        return "reject-model"
    if codecs.broadcast_in_domain(payload):
        return "valid"
    return "grey"


def fields_diff(exp: Dict[str, Any], got: Dict[str, Any]) -> List[str]:
    out = []
    for k, want in exp.items():
        if k == "electric_current_of":
            a = got.get("electric_current")
            ok = isinstance(a, float) and abs(a - want / 220.0) <= 0.05 + 1e-9 and abs(a * 10 - round(a * 10)) < 1e-6
            if not ok:
                out.append("electric_current")
            continue
        if k == "device_state" and exp.get("cls") == "SwitcherShutter":
            continue
        if got.get(k) != want:
            out.append(k)
    return out


def expected_for_port(run, port: int) -> List[Dict[str, Any]]:
    out = []
    for a in run.arrivals.get(port, []):
        if a["owner"] != "app":
            continue
        cls = classify(a["payload"])
        e = {"class": cls, "tag": a["tag"], "arrival": a, "done": False}
        if cls == "valid":
            e["dev"] = codecs.decode_broadcast(a["payload"])
        out.append(e)
    return out


def match_callbacks(run, prop: str, c: Dict[str, int]) -> List[Viol]:
    """Callbacks must be an interleaving of the per-port expected sequences (exactly once, in arrival order per
    port).  First an exact search for such an assignment (needed when the same broadcast is pending on several
    ports); only if none exists is the greedy matcher used, to name what went wrong."""
    exp = {p: expected_for_port(run, p) for p in run.ports}
    cbs = run.callbacks
    valid_idx = {p: [j for j, e in enumerate(exp[p]) if e["class"] == "valid"] for p in run.ports}
    n_grey = sum(1 for p in run.ports for e in exp[p] if e["class"] == "grey")
    budget = [20000]

    def ident(dev):
        return (dev.get("cls"), dev.get("device_id"))

    def solve(i, pos, greys_left, strict):
        """pos: per-port count of valid entries consumed so far (order forces a prefix).
        strict: a callback may only be attributed to an arrival it decodes exactly."""
        budget[0] -= 1
        if budget[0] < 0:
            return None
        if i == len(cbs):
            return [] if all(pos[k] == len(valid_idx[p]) for k, p in enumerate(run.ports)) else None
        got = cbs[i]["dev"]
        tried = False
        cands = []
        for k, p in enumerate(run.ports):
            if pos[k] < len(valid_idx[p]):
                e = exp[p][valid_idx[p][pos[k]]]
                if ident(e["dev"]) == ident(got):
                    d = fields_diff(e["dev"], got)
                    if strict and d:
                        continue
                    cands.append((len(d), k, e, d))
        for _, k, e, d in sorted(cands, key=lambda x: (x[0], x[1])):     # fewest wrongly decoded fields first
            tried = True
            rest = solve(i + 1, pos[:k] + (pos[k] + 1,) + pos[k + 1:], greys_left, strict)
            if rest is not None:
                return ([(e, got, d)] if d else []) + rest
        if not tried and greys_left:
            known = any(ident(e["dev"]) == ident(got) for p in run.ports for e in exp[p] if e["class"] == "valid")
            if not known:
                return solve(i + 1, pos, greys_left - 1, strict)
        return None

    # the same device may broadcast again with other values: first look for an assignment in which every callback
    # is an exact decoding; only if there is none, allow wrongly decoded fields (and report them)
    sol = solve(0, tuple(0 for _ in run.ports), n_grey, True)
    if sol is None:
        budget[0] = 20000
        sol = solve(0, tuple(0 for _ in run.ports), n_grey, False)
    if sol is not None:
        cnt(c, "judged-deliveries", len(cbs))
        v = []
        for e, got, d in sol:
            v.append(("%s/field/%s/%s" % (prop, e["dev"]["cls"], "+".join(d[:3])),
                      "broadcast %s decoded with wrong %s: expected %s, callback got %s" % (
                          e["arrival"]["payload"].hex(), d, {k: e["dev"].get(k) for k in d}, {k: got.get(k) for k in d})))
        return v
    return _greedy_diagnosis(run, prop, c, exp)


def _greedy_diagnosis(run, prop: str, c: Dict[str, int], exp) -> List[Viol]:
    """No admissible interleaving exists: name the first thing that is wrong."""
    v: List[Viol] = []

    def ident(dev):
        return (dev.get("cls"), dev.get("device_id"))

    for cb in run.callbacks:
        got = cb["dev"]
        cands = []
        for p in run.ports:
            for j, e in enumerate(exp[p]):
                if e["class"] == "valid" and ident(e["dev"]) == ident(got):
                    cands.append((p, j, e))
        pending = [(p, j, e) for p, j, e in cands if not e["done"]]
        if pending:
            # prefer an exact content match among the pending candidates (network duplicates share an id)
            exact = [x for x in pending if not fields_diff(x[2]["dev"], got)]

            def n_earlier(x):
                return len([k for k in range(x[1]) if exp[x[0]][k]["class"] == "valid" and not exp[x[0]][k]["done"]])
            # the same broadcast may be pending on several ports (mirrored): attribute the callback to the port
            # on which it is next in line, if there is one
            p, j, e = min(exact or pending, key=n_earlier)
            earlier = [k for k in range(j) if exp[p][k]["class"] == "valid" and not exp[p][k]["done"]]
            e["done"] = True
            cnt(c, "judged-deliveries")
            d = fields_diff(e["dev"], got)
            if d:
                v.append(("%s/field/%s/%s" % (prop, e["dev"]["cls"], "+".join(d[:3])),
                          "broadcast %s decoded with wrong %s: expected %s, callback got %s" % (
                              e["arrival"]["payload"].hex(), d, {k: e["dev"].get(k) for k in d},
                              {k: got.get(k) for k in d})))
            if earlier:
                v.append(("%s/reordered" % prop, "callback %d delivers id %s on port %d before %d earlier arrival(s)" % (
                    cb["n"], got.get("device_id"), p, len(earlier))))
            continue
        if cands:
            v.append(("%s/duplicated" % prop, "callback %d repeats the broadcast with id %s (arrived %d time(s))" % (
                cb["n"], got.get("device_id"), len(cands))))
            continue
        # a grey datagram (gate passes, a field out of its domain) may or may not produce a device
        grey = None
        for p in run.ports:
            for e in exp[p]:
                if e["class"] == "grey" and not e["done"]:
                    grey = e
                    break
            if grey:
                break
        if grey is not None:
            grey["done"] = True
            cnt(c, "grey:delivered")
            continue
        v.append(("%s/unexpected-device" % prop, "callback %d delivered %s which no arrival accounts for" % (cb["n"], got)))
    for p in run.ports:
        for e in exp[p]:
            if e["class"] == "valid" and not e["done"]:
                v.append(("%s/missing-delivery" % prop,
                          "valid broadcast tag %s (%s, id %s) reached port %d but no callback was made" % (
                              e["tag"], e["dev"]["cls"], e["dev"]["device_id"], p)))
                break
    return v


def judge_c05(scn, run) -> Tuple[List[Viol], Dict[str, int]]:
    c: Dict[str, int] = {}
    for p in run.ports:
        for a in run.arrivals.get(p, []):
            if a["owner"] == "app" and classify(a["payload"]) == "valid":
                cnt(c, "probe:type:" + codecs.MODELS[a["payload"][74:76].hex()][0])
                d = codecs.decode_broadcast(a["payload"])
                if d.get("device_state") == "OFF" and d["cls"] in ("SwitcherWaterHeater", "SwitcherPowerPlug"):
                    cnt(c, "probe:off-normalisation")
    v = match_callbacks(run, "C05", c)
    v = [x for x in v if True]
    return v, c


def judge_c07(scn, run) -> Tuple[List[Viol], Dict[str, int]]:
    c: Dict[str, int] = {}
    seen_tags: Dict[Any, int] = {}
    order_by_port: Dict[int, List[Any]] = {}
    for a in run.arrival_order:
        cnt(c, "arrival:" + classify(a["payload"]))
        seen_tags[a["tag"]] = seen_tags.get(a["tag"], 0) + 1
        order_by_port.setdefault(a["port"], []).append(a["tag"])
    if any(n > 1 for n in seen_tags.values()):
        cnt(c, "probe:duplicate-arrival")
    if any(isinstance(t, str) for t in seen_tags):
        cnt(c, "probe:mirrored-to-second-port")
    for p, tags in order_by_port.items():
        if any(isinstance(a, int) and isinstance(b, int) and a > b for a, b in zip(tags, tags[1:])):
            cnt(c, "probe:reordered-pair")
            break
    for p in run.ports:
        cl = [classify(a["payload"]) for a in run.arrivals.get(p, []) if a["owner"] == "app"]
        for i in range(1, len(cl) - 1):
            if cl[i] != "valid" and "valid" in cl[:i] and "valid" in cl[i + 1:]:
                cnt(c, "probe:junk-between-valid")
                break
    if any(x.get("exception") == "CallbackError" for x in run.exc_calls):
        cnt(c, "probe:callback-raised")
    if run.sim.fired.get("udp_sockerr"):
        cnt(c, "probe:socket-error")
    if len({a["port"] for a in run.arrival_order}) > 1:
        cnt(c, "probe:multi-port")
    v = match_callbacks(run, "C07", c)
    # nothing may be delivered once the last arrival has been drained
    if len(run.callbacks) != getattr(run, "final_callbacks", len(run.callbacks)):
        v.append(("C07/late-delivery", "%d callback(s) arrived after the network was quiet" % (
            len(run.callbacks) - run.final_callbacks)))
    if run.deadlock:
        v.append(("C07/hang", "loop deadlocked: %s" % run.deadlock))
    return v, c


def window_events(run, k: int):
    """Warnings / log records / loop-exception calls / callbacks seen while `k` arrivals had happened
    (i.e. attributable to the k-th arrival when datagrams are spaced apart)."""
    w = [x for x in run.warnings if x["arrived"] == k and not x["deprecation"]]
    lg = [x for x in run.logrecs if x["arrived"] == k]
    ex = [x for x in run.exc_calls if x["arrived"] == k]
    cb = [x for x in run.callbacks if x["arrived"] == k]
    return w, lg, ex, cb


def judge_c06(scn, run) -> Tuple[List[Viol], Dict[str, int]]:
    v: List[Viol] = []
    c: Dict[str, int] = {}
    for k, a in enumerate(run.arrival_order, start=1):
        if a["owner"] != "app":
            continue
        cls = classify(a["payload"])
        n = len(a["payload"])
        w, lg, ex, cb = window_events(run, k)
        if cls == "reject-gate":
            cnt(c, "judged-gate-fail")
            if n in (159, 165, 168):
                cnt(c, "probe:right-length-wrong-magic")
            if a["payload"][:2] == b"\xfe\xf0":
                cnt(c, "probe:magic-wrong-length")
            shape = "len%d" % n if n in (0, 1) else ("magic" if a["payload"][:2] == b"\xfe\xf0" else "nomagic")
            if cb:
                v.append(("C06/device-from-foreign/%s" % shape, "a %d-byte datagram %s... produced a device: %s" % (
                    n, a["payload"].hex()[:40], cb[0]["dev"])))
            if w or lg:
                v.append(("C06/warning-for-foreign/%s" % shape, "a %d-byte foreign datagram caused %s" % (
                    n, (w + lg)[0]["msg"])))
            if ex:
                v.append(("C06/exception-for-foreign/%s/%s" % (shape, ex[0]["exception"]),
                          "a %d-byte foreign datagram raised %s(%s)" % (n, ex[0]["exception"], ex[0]["text"])))
        elif cls == "reject-model":
            cnt(c, "judged-unknown-model")
            code = a["payload"][74:76].hex()
            if cb:
                v.append(("C06/device-from-unknown-model", "model code %s produced a device: %s" % (code, cb[0]["dev"])))
            if ex:
                v.append(("C06/unknown-model-raised/%s" % ex[0]["exception"],
                          "model code %s raised %s(%s) into the loop's exception handler" % (code, ex[0]["exception"], ex[0]["text"])))
            if not any("unknown" in x["msg"].lower() for x in w + lg):
                v.append(("C06/unknown-model-no-warning", "model code %s: no 'unknown device' warning (warnings %s)" % (
                    code, [x["msg"] for x in w + lg])))
        elif cls == "valid":
            cnt(c, "judged-valid")
            if len(cb) != 1:
                v.append(("C06/genuine-not-accepted", "a genuine %d-byte broadcast produced %d devices (exceptions %s)" % (
                    n, len(cb), [x["exception"] for x in ex])))
            if w or [x for x in lg]:
                v.append(("C06/warning-for-genuine", "a genuine broadcast caused %s" % (w + lg)[0]["msg"]))
        else:
            cnt(c, "grey:out-of-domain")
    return v, c


def judge_c17(scn, run) -> Tuple[List[Viol], Dict[str, int]]:
    v: List[Viol] = []
    c: Dict[str, int] = {}
    ports = sorted(run.ports)
    running = False
    # intervals in which callbacks are legitimate: [seq0 of a successful start, seq1 of the next stop]
    intervals: List[List[Optional[int]]] = []
    run_windows: List[List[Optional[int]]] = []       # [mono of start return, mono of next stop invoke]
    for act in run.actions:
        k = act["kind"]
        if k in ("occupy", "release"):
            cnt(c, "probe:" + k)
            continue
        cnt(c, "judged-actions")
        if k in ("start", "aenter"):
            busy = sorted(set(act["foreign"]) & set(ports))
            if busy:
                cnt(c, "probe:start-with-busy-port")
                which = "first" if busy[0] == run.ports[0] else "later"
                if act["outcome"][0] != "exc" or "OSError" not in act["outcome"][3]:
                    v.append(("C17/busy-port-not-raised", "%s with port %s busy ended with %r" % (k, busy, act["outcome"][:2])))
                if act["held"]:
                    v.append(("C17/failed-start-left-ports/%s-port-busy" % which,
                              "%s failed on busy port %s but ports %s are still bound by the bridge" % (k, busy, act["held"])))
                if act["running"] or act["running_at_return"]:
                    v.append(("C17/running-after-failed-start", "is_running is True after a failed %s" % k))
                intervals.append([act["seq0"], act["seq1"]])
                running = False
            else:
                if running:
                    # start on a running bridge: either it refuses (then, like any failed start, nothing may be
                    # left listening) or it is idempotent (then it must still be running on all ports)
                    cnt(c, "probe:start-while-running")
                    if act["outcome"][0] == "exc":
                        if act["held"] or act["running"] or act["running_at_return"]:
                            v.append(("C17/failed-start-left-ports/start-while-running",
                                      "%s on a running bridge raised %s; afterwards is_running=%s and ports %s are still bound" % (
                                          k, act["outcome"][1], act["running"], act["held"])))
                        intervals[-1][1] = act["seq1"]
                        run_windows[-1][1] = act["mono0"]
                        running = False
                    else:
                        if not act["running"] or act["held"] != ports:
                            v.append(("C17/start-while-running-inconsistent",
                                      "%s on a running bridge returned; is_running=%s, ports held %s of %s" % (
                                          k, act["running"], act["held"], ports)))
                    continue
                if act["outcome"][0] != "ok":
                    v.append(("C17/start-failed/%s" % act["outcome"][1],
                              "%s with all ports free raised %s(%s)" % (k, act["outcome"][1], act["outcome"][2])))
                    intervals.append([act["seq0"], act["seq1"]])
                    continue
                if intervals and intervals[-1][1] is not None and any(a["kind"] in ("stop", "aexit") for a in run.actions[:run.actions.index(act)]):
                    cnt(c, "probe:restart")
                running = True
                intervals.append([act["seq0"], None])
                run_windows.append([act["mono1"], None])
                if not (act["running"] and act["running_at_return"]):
                    v.append(("C17/not-running-after-start", "is_running is False after a successful %s" % k))
                if act["held"] != ports:
                    v.append(("C17/ports-not-bound", "after %s the bridge holds %s of %s" % (k, act["held"], ports)))
        else:  # stop / aexit
            if not running:
                cnt(c, "probe:stop-while-stopped")
            if act["outcome"][0] != "ok":
                v.append(("C17/stop-raised/%s" % act["outcome"][1], "%s raised %s(%s)" % (k, act["outcome"][1], act["outcome"][2])))
            if act["running"] or act["running_at_return"]:
                v.append(("C17/running-after-stop", "is_running is True after %s" % k))
            if act["held"]:
                v.append(("C17/ports-left-bound", "after %s and 3 loop cycles ports %s are still bound" % (k, act["held"])))
            if running:
                intervals[-1][1] = act["seq1"]
                run_windows[-1][1] = act["mono0"]
            running = False
    for cb in run.callbacks:
        ok = any(lo <= cb["seq"] and (hi is None or cb["seq"] <= hi) for lo, hi in intervals)
        if not ok:
            last = max([a for a in run.actions if a.get("seq1") is not None and a["seq1"] < cb["seq"]],
                       key=lambda a: a["seq1"], default=None)
            after = last["kind"] if last else "nothing"
            if last and last["kind"] in ("start", "aenter") and last["outcome"][0] == "exc":
                after = "failed-start"
            v.append(("C17/callback-while-not-running/after-%s" % after,
                      "callback %d (id %s) was made while the bridge was not running (last action: %s)" % (
                          cb["n"], cb["dev"].get("device_id"), after)))
            break
    # broadcasts that reached the bridge comfortably inside a running window must be delivered
    delivered_ids = [cb["dev"].get("device_id") for cb in run.callbacks]
    for a in run.arrival_order:
        if classify(a["payload"]) != "valid":
            continue
        inside = any(lo < a["mono_us"] and (hi is None or a["mono_us"] < hi - 1000) for lo, hi in run_windows)
        if inside:
            cnt(c, "judged-deliveries")
            if a["owner"] != "app":
                v.append(("C17/not-listening-while-running", "a broadcast to port %d found no bridge socket while running" % a["port"]))
            elif a["payload"][18:21].hex() not in delivered_ids:
                v.append(("C17/missing-delivery", "a broadcast that arrived while running was never delivered"))
    cnt(c, "judged-iteration-samples", getattr(run, "running_samples", 0))
    for smp in getattr(run, "running_but_not_listening", [])[:1]:
        v.append(("C17/running-while-not-listening-on-all-ports",
                  "is_running was True at a moment when the bridge held only ports %s of %s" % (smp["held"], ports)))
    if getattr(run, "final_held", []) and not running:
        v.append(("C17/ports-left-bound-at-end", "ports %s still bound at the end" % run.final_held))
    return v, c


JUDGES = {"C05": judge_c05, "C06": judge_c06, "C07": judge_c07, "C17": judge_c17}
