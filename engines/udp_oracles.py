"""Oracles over a finished UDP run."""
from __future__ import annotations

from typing import Any, Dict, List, Optional, Tuple

from refs import codecs

Viol = Tuple[str, str]


def cnt(c, k, n=1):
    c[k] = c.get(k, 0) + n


def classify(payload: bytes) -> str:
    """valid | reject-gate | reject-model | grey."""
    if not codecs.gate(payload):
        return "reject-gate"
    if payload[74:76].hex() not in codecs.MODELS:
        return "reject-model"
    if codecs.broadcast_in_domain(payload):
        return "valid"
    return "grey"


def fields_diff(exp: Dict[str, Any], got: Dict[str, Any]) -> List[str]:
    out = []
    for k, want in exp.items():
        if k == "electric_current_of":
            a = got.get("electric_current")
            ok = isinstance(a, (int, float)) and not isinstance(a, bool) and abs(a - want / 220.0) <= 0.05 + 1e-9 \
                and abs(a * 10 - round(a * 10)) < 1e-6
            if not ok:
                out.append("electric_current")
            continue
        if k == "device_state" and exp.get("cls") == "SwitcherShutter":
            continue
        if got.get(k) != want:
            out.append(k)
    return out


def expected_for_port(run, port: int) -> List[Dict[str, Any]]:
    out = []
    for a in run.arrivals.get(port, []):
        if a["owner"] != "app" or a.get("owner_id") not in (None, ("bridge", 0)):
            continue
        cls = classify(a["payload"])
        e = {"class": cls, "tag": a["tag"], "arrival": a, "done": False}
        if cls == "valid":
            e["dev"] = codecs.decode_broadcast(a["payload"])
        out.append(e)
    return out


def match_callbacks(run, prop: str, c: Dict[str, int]) -> List[Viol]:
    """Callbacks must be an interleaving of the per-port expected sequences (exactly once, in arrival order per
    port).  First an exact search for such an assignment (needed when the same broadcast is pending on several
    ports); only if none exists is the greedy matcher used, to name what went wrong."""
    exp = {p: expected_for_port(run, p) for p in run.ports}
    cbs = [cb for cb in run.callbacks if cb.get("bridge", 0) == 0]
    valid_idx = {p: [j for j, e in enumerate(exp[p]) if e["class"] == "valid"] for p in run.ports}
    # a grey arrival (gate passes, known model, some field outside its domain) may or may not produce a device;
    # if it does, the device carries that arrival's class and id
    grey_idents = []
    for p in run.ports:
        for e in exp[p]:
            if e["class"] == "grey":
                pl = e["arrival"]["payload"]
                grey_idents.append((codecs.CATEGORY_CLASS[codecs.MODELS[pl[74:76].hex()][2]], pl[18:21].hex()))
    n_grey = tuple(sorted(grey_idents))
    budget = [20000]

    def ident(dev):
        return (dev.get("cls"), dev.get("device_id"))

    def solve(i, pos, greys_left, strict):
        """pos: per-port count of valid entries consumed so far (order forces a prefix).
        strict: a callback may only be attributed to an arrival it decodes exactly."""
        budget[0] -= 1
        if budget[0] < 0:
            return None
        if i == len(cbs):
            return [] if all(pos[k] == len(valid_idx[p]) for k, p in enumerate(run.ports)) else None
        got = cbs[i]["dev"]
        tried = False
        cands = []
        for k, p in enumerate(run.ports):
            if pos[k] < len(valid_idx[p]):
                e = exp[p][valid_idx[p][pos[k]]]
                if ident(e["dev"]) == ident(got):
                    d = fields_diff(e["dev"], got)
                    if strict and d:
                        continue
                    cands.append((len(d), k, e, d))
        for _, k, e, d in sorted(cands, key=lambda x: (x[0], x[1])):     # fewest wrongly decoded fields first
            tried = True
            rest = solve(i + 1, pos[:k] + (pos[k] + 1,) + pos[k + 1:], greys_left, strict)
            if rest is not None:
                return ([(e, got, d)] if d else []) + rest
        if ident(got) in greys_left:
            gl = list(greys_left)
            gl.remove(ident(got))
            rest = solve(i + 1, pos, tuple(gl), strict)
            if rest is not None:
                return rest
        return None

    # the same device may broadcast again with other values: first look for an assignment in which every callback
    # is an exact decoding; only if there is none, allow wrongly decoded fields (and report them)
    sol = solve(0, tuple(0 for _ in run.ports), n_grey, True)
    if sol is None:
        budget[0] = 20000
        sol = solve(0, tuple(0 for _ in run.ports), n_grey, False)
    if sol is not None:
        cnt(c, "judged-deliveries", len(cbs))
        v = []
        for e, got, d in sol:
            v.append(("%s/field/%s/%s" % (prop, e["dev"]["cls"], "+".join(d[:3])),
                      "broadcast %s decoded with wrong %s: expected %s, callback got %s" % (
                          e["arrival"]["payload"].hex(), d, {k: e["dev"].get(k) for k in d}, {k: got.get(k) for k in d})))
        return v
    return _greedy_diagnosis(run, prop, c, exp)


def _greedy_diagnosis(run, prop: str, c: Dict[str, int], exp) -> List[Viol]:
    """No admissible interleaving exists: name the first thing that is wrong."""
    v: List[Viol] = []

    def ident(dev):
        return (dev.get("cls"), dev.get("device_id"))

    for cb in run.callbacks:
        got = cb["dev"]
        cands = []
        for p in run.ports:
            for j, e in enumerate(exp[p]):
                if e["class"] == "valid" and ident(e["dev"]) == ident(got):
                    cands.append((p, j, e))
        pending = [(p, j, e) for p, j, e in cands if not e["done"]]
        if pending:
            # prefer an exact content match among the pending candidates (network duplicates share an id)
            exact = [x for x in pending if not fields_diff(x[2]["dev"], got)]

            def n_earlier(x):
                return len([k for k in range(x[1]) if exp[x[0]][k]["class"] == "valid" and not exp[x[0]][k]["done"]])
            # the same broadcast may be pending on several ports (mirrored): attribute the callback to the port
            # on which it is next in line, if there is one
            p, j, e = min(exact or pending, key=n_earlier)
            earlier = [k for k in range(j) if exp[p][k]["class"] == "valid" and not exp[p][k]["done"]]
            e["done"] = True
            cnt(c, "judged-deliveries")
            d = fields_diff(e["dev"], got)
            if d:
                v.append(("%s/field/%s/%s" % (prop, e["dev"]["cls"], "+".join(d[:3])),
                          "broadcast %s decoded with wrong %s: expected %s, callback got %s" % (
                              e["arrival"]["payload"].hex(), d, {k: e["dev"].get(k) for k in d},
                              {k: got.get(k) for k in d})))
            if earlier:
                v.append(("%s/reordered" % prop, "callback %d delivers id %s on port %d before %d earlier arrival(s)" % (
                    cb["n"], got.get("device_id"), p, len(earlier))))
            continue
        if cands:
            v.append(("%s/duplicated" % prop, "callback %d repeats the broadcast with id %s (arrived %d time(s))" % (
                cb["n"], got.get("device_id"), len(cands))))
            continue
        # a grey datagram (gate passes, a field out of its domain) may or may not produce a device
        grey = None
        for p in run.ports:
            for e in exp[p]:
                if e["class"] == "grey" and not e["done"]:
                    grey = e
                    break
            if grey:
                break
        if grey is not None:
            grey["done"] = True
            cnt(c, "grey:delivered")
            continue
        v.append(("%s/unexpected-device" % prop, "callback %d delivered %s which no arrival accounts for" % (cb["n"], got)))
    for p in run.ports:
        for e in exp[p]:
            if e["class"] == "valid" and not e["done"]:
                v.append(("%s/missing-delivery" % prop,
                          "valid broadcast tag %s (%s, id %s) reached port %d but no callback was made" % (
                              e["tag"], e["dev"]["cls"], e["dev"]["device_id"], p)))
                break
    return v


def judge_c05(scn, run) -> Tuple[List[Viol], Dict[str, int]]:
    c: Dict[str, int] = {}
    for p in run.ports:
        for a in run.arrivals.get(p, []):
            if a["owner"] == "app" and classify(a["payload"]) == "valid":
                cnt(c, "probe:type:" + codecs.MODELS[a["payload"][74:76].hex()][0])
                d = codecs.decode_broadcast(a["payload"])
                if d.get("device_state") == "OFF" and d["cls"] in ("SwitcherWaterHeater", "SwitcherPowerPlug"):
                    cnt(c, "probe:off-normalisation")
    v = match_callbacks(run, "C05", c)
    return v, c


def judge_c07(scn, run) -> Tuple[List[Viol], Dict[str, int]]:
    c: Dict[str, int] = {}
    seen_tags: Dict[Any, int] = {}
    order_by_port: Dict[int, List[Any]] = {}
    for a in run.arrival_order:
        cnt(c, "arrival:" + classify(a["payload"]))
        seen_tags[a["tag"]] = seen_tags.get(a["tag"], 0) + 1
        order_by_port.setdefault(a["port"], []).append(a["tag"])
    if any(n > 1 for n in seen_tags.values()):
        cnt(c, "probe:duplicate-arrival")
    if any(isinstance(t, str) for t in seen_tags):
        cnt(c, "probe:mirrored-to-second-port")
    for p, tags in order_by_port.items():
        if any(isinstance(a, int) and isinstance(b, int) and a > b for a, b in zip(tags, tags[1:])):
            cnt(c, "probe:reordered-pair")
            break
    for p in run.ports:
        cl = [classify(a["payload"]) for a in run.arrivals.get(p, []) if a["owner"] == "app"]
        for i in range(1, len(cl) - 1):
            if cl[i] != "valid" and "valid" in cl[:i] and "valid" in cl[i + 1:]:
                cnt(c, "probe:junk-between-valid")
                break
    if any(x.get("exception") == "CallbackError" for x in run.exc_calls):
        cnt(c, "probe:callback-raised")
    if run.sim.fired.get("udp_sockerr"):
        cnt(c, "probe:socket-error")
    if len({a["port"] for a in run.arrival_order}) > 1:
        cnt(c, "probe:multi-port")
    v = match_callbacks(run, "C07", c)
    # the bridge is started first and never stopped in these runs: every datagram sent to one of its ports must
    # find its socket (unless the receive queue was full)
    started = any(a["kind"] in ("start", "aenter") and a.get("bridge", 0) == 0 and a["outcome"][0] == "ok" for a in run.actions)
    stopped = any(a["kind"] in ("stop", "aexit") and a.get("bridge", 0) == 0 for a in run.actions)
    if started and not stopped:
        for a in run.arrival_order:
            if a["port"] in run.ports and a["fd"] is None and not a.get("overflow"):
                v.append(("C07/arrival-found-no-socket",
                          "a datagram for port %d found no socket of the running bridge (is_running=%s)" % (
                              a["port"], getattr(run, "final_running", None))))
                break
    if len(getattr(run, "bridge_ports", [])) > 1:
        cnt(c, "probe:second-bridge-object")
    # nothing may be delivered once the last arrival has been drained
    if len(run.callbacks) != getattr(run, "final_callbacks", len(run.callbacks)):
        v.append(("C07/late-delivery", "%d callback(s) arrived after the network was quiet" % (
            len(run.callbacks) - run.final_callbacks)))
    if run.deadlock:
        v.append(("C07/hang", "loop deadlocked: %s" % run.deadlock))
    return v, c


def window_events(run, k: int):
    """Warnings / log records / loop-exception calls / callbacks seen while `k` arrivals had happened
    (i.e. attributable to the k-th arrival when datagrams are spaced apart)."""
    w = [x for x in run.warnings if x["arrived"] == k and not x["deprecation"]]
    lg = [x for x in run.logrecs if x["arrived"] == k]
    ex = [x for x in run.exc_calls if x["arrived"] == k]
    cb = [x for x in run.callbacks if x["arrived"] == k]
    return w, lg, ex, cb


def judge_c06(scn, run) -> Tuple[List[Viol], Dict[str, int]]:
    v: List[Viol] = []
    c: Dict[str, int] = {}
    for k, a in enumerate(run.arrival_order, start=1):
        if a["owner"] != "app":
            continue
        cls = classify(a["payload"])
        n = len(a["payload"])
        w, lg, ex, cb = window_events(run, k)
        if cls == "reject-gate":
            cnt(c, "judged-gate-fail")
            if n in (159, 165, 168):
                cnt(c, "probe:right-length-wrong-magic")
            if a["payload"][:2] == b"\xfe\xf0":
                cnt(c, "probe:magic-wrong-length")
            shape = "len%d" % n if n in (0, 1) else ("magic" if a["payload"][:2] == b"\xfe\xf0" else "nomagic")
            if cb:
                v.append(("C06/device-from-foreign/%s" % shape, "a %d-byte datagram %s... produced a device: %s" % (
                    n, a["payload"].hex()[:40], cb[0]["dev"])))
            if w or lg:
                v.append(("C06/warning-for-foreign/%s" % shape, "a %d-byte foreign datagram caused %s" % (
                    n, (w + lg)[0]["msg"])))
            if ex:
                v.append(("C06/exception-for-foreign/%s/%s" % (shape, ex[0]["exception"]),
                          "a %d-byte foreign datagram raised %s(%s)" % (n, ex[0]["exception"], ex[0]["text"])))
        elif cls == "reject-model":
            cnt(c, "judged-unknown-model")
            code = a["payload"][74:76].hex()
            if cb:
                v.append(("C06/device-from-unknown-model", "model code %s produced a device: %s" % (code, cb[0]["dev"])))
            if ex:
                v.append(("C06/unknown-model-raised/%s" % ex[0]["exception"],
                          "model code %s raised %s(%s) into the loop's exception handler" % (code, ex[0]["exception"], ex[0]["text"])))
            if not (w or lg):
                v.append(("C06/unknown-model-no-warning", "model code %s: no warning at all was issued" % code))
        elif cls == "valid":
            cnt(c, "observed-valid")          # what a genuine broadcast yields is C05's and C07's business
        else:
            cnt(c, "grey:out-of-domain")
    return v, c


def judge_c17(scn, run) -> Tuple[List[Viol], Dict[str, int]]:
    v: List[Viol] = []
    c: Dict[str, int] = {}
    nb = len(getattr(run, "bridge_ports", [run.ports]))
    bports = [sorted(set(p)) for p in getattr(run, "bridge_ports", [run.ports])]
    running = [False] * nb
    # per bridge: intervals (by log sequence) in which callbacks are legitimate, and running windows (by time)
    intervals: List[List[List[Optional[int]]]] = [[] for _ in range(nb)]
    run_windows: List[List[List[Optional[int]]]] = [[] for _ in range(nb)]
    stopped_before = [False] * nb
    if nb > 1:
        cnt(c, "probe:several-bridge-objects")
    for act in run.actions:
        k = act["kind"]
        if k in ("occupy", "release"):
            cnt(c, "probe:" + k)
            continue
        b = act.get("bridge", 0)
        ports = bports[b]
        tagb = "" if nb == 1 else "/bridge%d" % b
        cnt(c, "judged-actions")
        if k in ("start", "aenter"):
            busy = sorted(set(act["foreign"]) & set(ports)) + [p for p in ports if not 0 <= p <= 65535]
            if busy and not running[b] and act["outcome"][0] == "exc":
                cnt(c, "probe:start-with-busy-port")
                which = "first" if busy[0] == run.bridge_ports[b][0] else "later"
                if act["held"]:
                    v.append(("C17/failed-start-left-ports/%s-port-busy" % which,
                              "%s failed on busy port %s but ports %s are still bound by the bridge" % (k, busy, act["held"])))
                if act["running"] or act["running_at_return"]:
                    v.append(("C17/running-after-failed-start", "is_running is True after a failed %s" % k))
                intervals[b].append([act["seq0"], act["seq1"]])
            elif running[b]:
                # start on a running bridge: either it refuses (then, like any failed start, nothing may be
                # left listening) or it is idempotent (then it must still be running on all ports)
                cnt(c, "probe:start-while-running")
                if act["outcome"][0] == "exc":
                    untouched = act["running"] and act["running_at_return"] and act["held"] == ports
                    torn_down = not act["held"] and not act["running"] and not act["running_at_return"]
                    if untouched:
                        pass              # refused outright ("already running"): the bridge is as it was
                    else:
                        if not torn_down:
                            v.append(("C17/failed-start-left-ports/start-while-running",
                                      "%s on a running bridge raised %s; afterwards is_running=%s and ports %s are still bound" % (
                                          k, act["outcome"][1], act["running"], act["held"])))
                        intervals[b][-1][1] = act["seq1"]
                        run_windows[b][-1][1] = act["mono0"]
                        running[b] = False
                elif not act["running"] or act["held"] != ports:
                    v.append(("C17/start-while-running-inconsistent",
                              "%s on a running bridge returned; is_running=%s, ports held %s of %s" % (
                                  k, act["running"], act["held"], ports)))
            elif act["outcome"][0] != "ok":
                v.append(("C17/start-failed/%s" % act["outcome"][1],
                          "%s with all ports free raised %s(%s)" % (k, act["outcome"][1], act["outcome"][2])))
                intervals[b].append([act["seq0"], act["seq1"]])
            else:
                if stopped_before[b]:
                    cnt(c, "probe:restart")
                running[b] = True
                intervals[b].append([act["seq0"], None])
                run_windows[b].append([act["mono1"], None])
                if not (act["running"] and act["running_at_return"]):
                    v.append(("C17/not-running-after-start", "is_running is False after a successful %s" % k))
                if act["held"] != ports:
                    v.append(("C17/ports-not-bound", "after %s the bridge holds %s of %s" % (k, act["held"], ports)))
        else:  # stop / aexit
            stopped_before[b] = True
            if not running[b]:
                cnt(c, "probe:stop-while-stopped")
            if act["outcome"][0] != "ok":
                v.append(("C17/stop-raised/%s" % act["outcome"][1], "%s raised %s(%s)" % (k, act["outcome"][1], act["outcome"][2])))
            if act["running"] or act["running_at_return"]:
                v.append(("C17/running-after-stop", "is_running is True after %s" % k))
            if act["held"]:
                v.append(("C17/ports-left-bound", "after %s and 3 loop cycles ports %s are still bound" % (k, act["held"])))
            if running[b]:
                intervals[b][-1][1] = act["seq1"]
                run_windows[b][-1][1] = act["mono0"]
            running[b] = False
        # an action on one bridge object must leave every other bridge object as it was
        for o in act.get("others", []):
            ob = o["bridge"]
            want_held = bports[ob] if running[ob] else []
            if o["running"] != running[ob] or o["held"] != want_held:
                v.append(("C17/other-bridge-disturbed/%s" % k,
                          "%s on bridge %d left bridge %d with is_running=%s holding %s; it should be %s holding %s" % (
                              k, b, ob, o["running"], o["held"], running[ob], want_held)))
    for cb in run.callbacks:
        b = cb.get("bridge", 0)
        ok = any(lo <= cb["seq"] and (hi is None or cb["seq"] <= hi) for lo, hi in intervals[b])
        if not ok:
            mine = [a for a in run.actions if a.get("bridge", 0) == b and a.get("seq1") is not None and a["seq1"] < cb["seq"]]
            last = max(mine, key=lambda a: a["seq1"], default=None)
            after = last["kind"] if last else "nothing"
            if last and last["kind"] in ("start", "aenter") and last["outcome"][0] == "exc":
                after = "failed-start"
            v.append(("C17/callback-while-not-running/after-%s" % after,
                      "callback %d (id %s) was made while the bridge was not running (last action: %s)" % (
                          cb["n"], cb["dev"].get("device_id"), after)))
            break
    # broadcasts that reached a port comfortably inside a running window of the bridge owning it must be delivered
    for b in range(nb):
        delivered_ids = [cb["dev"].get("device_id") for cb in run.callbacks if cb.get("bridge", 0) == b]
        for a in run.arrival_order:
            if classify(a["payload"]) != "valid" or a["port"] not in bports[b]:
                continue
            inside = any(lo < a["mono_us"] and (hi is None or a["mono_us"] < hi - 1_000_000) for lo, hi in run_windows[b])
            if inside and a.get("n_holders", 1) <= 1:      # a port shared through SO_REUSEPORT may deliver to either holder
                cnt(c, "judged-deliveries")
                if not (a["owner"] == "app" and a.get("owner_id") == ("bridge", b)):
                    v.append(("C17/not-listening-while-running", "a broadcast to port %d found no socket of the running bridge" % a["port"]))
                elif a["payload"][18:21].hex() not in delivered_ids:
                    v.append(("C17/missing-delivery", "a broadcast that arrived while running was never delivered"))
    # a (re)started bridge delivers each datagram its sockets took once, not once per start it has ever had
    for b in range(nb):
        took: Dict[str, int] = {}
        for a in run.arrival_order:
            if a["owner"] == "app" and a.get("owner_id") == ("bridge", b) and len(a["payload"]) >= 21:
                took[a["payload"][18:21].hex()] = took.get(a["payload"][18:21].hex(), 0) + 1
        made: Dict[str, int] = {}
        for cb in run.callbacks:
            if cb.get("bridge", 0) == b:
                made[cb["dev"].get("device_id")] = made.get(cb["dev"].get("device_id"), 0) + 1
        for did, n in sorted(made.items(), key=lambda kv: str(kv[0])):
            if n > took.get(did, 0):
                v.append(("C17/more-callbacks-than-datagrams/%s" % ("after-restart" if stopped_before[b] else "first-run"),
                          "bridge %d made %d callbacks for device %s from %d datagrams its sockets received" % (
                              b, n, did, took.get(did, 0))))
                break
    # quiet moments (after a sleep, long after the last lifecycle action): what a bridge says about itself must
    # agree with what it holds - in both directions (e.g. a socket error must not flip the flag)
    last_life = {}
    for act in run.actions:
        if act["kind"] not in ("occupy", "release"):
            last_life[act.get("bridge", 0)] = act
    for snap in getattr(run, "snapshots", []):
        model_at = {}
        for b in range(nb):
            r = False
            for act in run.actions:
                if act["kind"] in ("occupy", "release") or act.get("bridge", 0) != b or act.get("seq1", 0) > snap["seq"]:
                    continue
                r = bool(act["running"])
            model_at[b] = r
        for b, stt in enumerate(snap["state"][:nb]):
            cnt(c, "judged-quiet-snapshots")
            valid_ports = [p for p in bports[b] if 0 <= p <= 65535]
            listening = stt["held"] == valid_ports and valid_ports == bports[b]
            if stt["running"] != listening or (stt["held"] and stt["held"] != bports[b]):
                v.append(("C17/flag-disagrees-with-sockets/%s" % ("says-running" if stt["running"] else "says-stopped"),
                          "at a quiet moment bridge %d says is_running=%s while it holds ports %s of %s" % (
                              b, stt["running"], stt["held"], bports[b])))
                break
    cnt(c, "judged-iteration-samples", getattr(run, "running_samples", 0))
    for smp in getattr(run, "running_but_not_listening", [])[:1]:
        v.append(("C17/running-while-not-listening-on-all-ports",
                  "is_running was True at a moment when bridge %d held only ports %s of %s" % (
                      smp.get("bridge", 0), smp["held"], bports[smp.get("bridge", 0)])))
    for b, st in enumerate(getattr(run, "final_state", [])):
        if st["held"] and not running[b]:
            v.append(("C17/ports-left-bound-at-end", "ports %s still bound at the end" % st["held"]))
    return v, c


JUDGES = {"C05": judge_c05, "C06": judge_c06, "C07": judge_c07, "C17": judge_c17}
