"""Seeded scenario generators for the TCP engine.  Everything a run does is written
into the scenario explicitly (arguments, reply delays, fault parameters), so the
scenario file alone determines the execution."""
from __future__ import annotations

import itertools
import os
import random
from typing import Any, Dict, List, Optional

from refs import irsets, localtime

ZONES = ["UTC", "Asia/Jerusalem", "America/New_York", "Australia/Lord_Howe", "Asia/Kathmandu",
         "Pacific/Kiritimati", "Pacific/Pago_Pago", "Europe/London", "America/Sao_Paulo", "Asia/Kolkata",
         "Australia/Adelaide", "Pacific/Chatham", "America/St_Johns", "Asia/Tehran", "Africa/Cairo",
         "Europe/Moscow", "America/Los_Angeles", "Pacific/Auckland", "Asia/Tokyo", "America/Caracas",
         "Pacific/Apia", "Atlantic/Azores", "Africa/Casablanca", "Antarctica/Troll"]

DAYS = ["MONDAY", "TUESDAY", "WEDNESDAY", "THURSDAY", "FRIDAY", "SATURDAY", "SUNDAY"]
TYPE1_KINDS = ["heater", "plug"]
T1_OPS = ["get_state", "control_device", "set_auto_shutdown", "set_device_name", "get_schedules",
          "delete_schedule", "create_schedule", "login"]
T2R_OPS = ["stop", "set_position", "get_shutter_state", "login"]
T2B_OPS = ["get_breeze_state", "control_breeze_device", "login"]

_trans_cache: Dict[str, List[int]] = {}


def zone_transitions(z: str) -> List[int]:
    if z not in _trans_cache:
        _trans_cache[z] = localtime.transitions(z)
    return _trans_cache[z]


# (kept in step with tcp_exec.BODY_EXCEPTIONS; listed here so that generating needs no asyncio import)
BODY_EXCEPTION_KINDS = ["aborted", "base", "cancelled", "connection", "eof", "generatorexit", "key", "keyboard", "memory",
                        "oserror", "pipe", "plain", "refused", "reset", "runtime", "stopasynciteration", "systemexit",
                        "timeout", "value"]


def gen_epoch_zone(rng: random.Random, zone: str) -> float:
    """An instant 2000..2037 biased to DST transitions, year ends, leap days and local midnights; one in twenty
    lies beyond 2038-01-19 (seconds that no longer fit a signed 32-bit integer), up to 2100."""
    lo, hi = 946_684_800 + 86400 * 2, 2_145_830_400 - 86400 * 40
    r = rng.random()
    tr = zone_transitions(zone)
    if r < 0.05:
        lo, hi = 2**31 - 86400 * 3, 4_102_444_800
        t = rng.choice([rng.randrange(2**31 - 7200, 2**31 + 7200), rng.randrange(lo, hi), rng.randrange(lo, hi)])
    elif r < 0.45 and tr:
        t = rng.choice(tr) + rng.choice([-86400, -7200, -3600, -1800, -60, -1, 0, 1, 60, 1800, 3600, 7200, 86400]) \
            + rng.randrange(-3600, 3600)
    elif r < 0.6:
        y = rng.randrange(2000, 2037)
        import datetime as dt
        t = int(dt.datetime(y, 12, 31, 12, tzinfo=dt.timezone.utc).timestamp()) + rng.randrange(-86400, 86400 * 2)
    elif r < 0.7:
        y = rng.choice([2000, 2004, 2008, 2012, 2016, 2020, 2024, 2028, 2032, 2036])
        import datetime as dt
        t = int(dt.datetime(y, 2, 29, 12, tzinfo=dt.timezone.utc).timestamp()) + rng.randrange(-86400, 86400)
    else:
        t = rng.randrange(lo, hi)
    if rng.random() < 0.3:
        # snap near a local midnight
        import datetime as dt
        d = localtime.local_dt(zone, t)
        mid = d.replace(hour=0, minute=0, second=0, microsecond=0)
        t = int(mid.timestamp()) + rng.choice([-2, -1, 0, 1, 2, 30, 59, 60, -60])
    t = min(max(t, lo), hi)
    return float(t) + rng.choice([0.0, 0.0, 0.25, 0.5, 0.75])


def gen_epoch_any(rng: random.Random) -> float:
    r = rng.random()
    if r < 0.1:
        return float(rng.randrange(10**6, 10**7))
    if r < 0.2:
        return float(rng.randrange(2**32 - 10**8, 2**32 - 10**7))
    if r < 0.3:
        return float(rng.randrange(2**31 - 5000, 2**31 + 5000)) + rng.random()
    return float(rng.randrange(10**6, 2**32 - 10**7)) + rng.choice([0.0, 0.5, 0.49, 0.51, rng.random()])


# values that appear in the repository's own tests and captures are the most natural "special" values
FIXTURE_IDS = ["aaaaaa", "a123bc", "3a20b7", "f2239a", "ab1c2d", "000000", "ffffff", "00ff00", "0a0b0c", "a1b2c3", "010000", "800000",
               "fef0fe", "f0fef0", "0a0a0a", "303030"]
FIXTURE_KEYS = ["18", "00", "ff", "0a", "03", "06", "08", "01", "80", "7f"]
SPECIAL_SESSIONS = ["00000000", "01000000", "f050834e", "ffffffff", "00000001", "00000100", "80000000", "7fffffff", "fef0fef0",
                    "30303030", "f0fe0000", "0000f0fe", "0a0d0a0d", "20202020"]


def gen_id(rng) -> str:
    r = rng.random()
    if r < 0.15:
        return rng.choice(FIXTURE_IDS)
    return "%06x" % rng.randrange(1 << 24)


def gen_key(rng) -> str:
    return rng.choice(FIXTURE_KEYS) if rng.random() < 0.2 else "%02x" % rng.randrange(256)


SCRIPTS = {
    "ascii": "abcdefghijklmnopqrstuvwxyzABCDEFGHIJKLMNOPQRSTUVWXYZ0123456789 _-'",
    "hebrew": "אבגדהוזחטיכלמנסעפצקרשת ",
    "accented": "éèêëàâäôöùûüçñáíóúÅåØøßÆæ ",
    "astral": "😀🏠🔥🌡💡🚿🛁",
    "bmp3": "€中日本語한글ไทย₪✓",          # three-byte UTF-8
    # text that a "harmless" normalisation, case folding or stripping would change: combining sequences and
    # singletons (NFC/NFD), compatibility forms (NFKC), characters whose case mapping changes length, blanks
    "unstable": ["e\u0301", "A\u030a", "\u2126", "\u212b", "\u212a", "\ufb2a", "\ufb01", "\u0130", "\u00df", "\u1e9e",
                 "\u01c4", "\u00b5", "\u017f", "\u05e9\u05bc\u05c1\u05b8", "\u1100\u1161", "\u0958", "\u00a0", "\u200b",
                 "\u200f", "\ufeff", "\t", " ", "x", "Q", "0"],
}


FIXTURE_NAMES = ["my device cool name", "My Switcher Boiler", "Switcher Breeze_5679", "Switcher Run_1E42", "Switcher Boiler CF8B",
                 "t", "tt", "t" * 32, "t" * 33]


def gen_name(rng) -> str:
    if rng.random() < 0.06:
        return rng.choice(FIXTURE_NAMES)
    r = rng.random()
    n = rng.choice([0, 1, 2, 2, 3, 8, 10, 11, 15, 16, 17, 19, 31, 32, 33, 40]) if r < 0.6 else rng.randrange(0, 41)
    s = rng.random()
    if s < 0.4:
        alpha = SCRIPTS["ascii"]
    elif s < 0.6:
        alpha = SCRIPTS["hebrew"]
    elif s < 0.75:
        alpha = SCRIPTS["accented"]
    elif s < 0.82:
        alpha = SCRIPTS["astral"]
    elif s < 0.88:
        alpha = SCRIPTS["bmp3"]
    elif s < 0.94:
        alpha = SCRIPTS["unstable"]
    else:
        alpha = SCRIPTS["ascii"] + SCRIPTS["hebrew"] + SCRIPTS["accented"] + SCRIPTS["astral"] + SCRIPTS["bmp3"]
    name = "".join(rng.choice(alpha) for _ in range(n))
    if rng.random() < 0.05 and name:
        # blanks at either end (a name is not the library's to trim)
        name = rng.choice([" ", "\t", "  ", ""]) + name + rng.choice([" ", "\t", "\n", ""])
    return name


def gen_minutes(rng) -> int:
    r = rng.random()
    if r < 0.35:
        return rng.choice([0, 1, 2, 59, 60, 90, 1439, 1440, 71582787, 71582788, 71582789, 71582790, 2**32 // 60,
                           2**32, 2**32 + 1, 10**12])
    if r < 0.7:
        return rng.randrange(0, 1500)
    return rng.randrange(0, 71582789)


def gen_auto_seconds(rng):
    r = rng.random()
    if r < 0.08:
        # a timedelta need not be a whole number of seconds (nor non-negative, nor shorter than a day)
        return rng.choice([3599.5, 3599.999999, 3600.5, 3659.5, 86339.5, 86340.5, -0.5, -3600.0, 0.5,
                           86400 + 3600, 86400 + 8100, 86400 * 2, -86400 + 7200, -79200, 3600 + rng.random()])
    if r < 0.5:
        base = rng.choice([3600, 86340, 86400])
        return base + rng.randrange(-125, 126)
    if r < 0.9:
        return rng.randrange(3600, 86400)
    return rng.randrange(0, 200000)


def gen_hhmm(rng, bad: float = 0.12) -> str:
    if rng.random() < bad:
        return rng.choice(["", "13", "1300", "ab:cd", "25:00", "12:60", "12:", ":30", "24:00", "1:5", "13:00:59",
                           "99:99", "noon", "7:", "x:y"])
    r = rng.random()
    if r < 0.3:
        h, m = rng.choice([(0, 0), (23, 59), (12, 0), (0, 1), (1, 0), (1, 30), (2, 0), (2, 30), (3, 0), (23, 0),
                           (0, 30), (1, 59), (2, 59)])
    else:
        h, m = rng.randrange(24), rng.randrange(60)
    return "%02d:%02d" % (h, m)


def gen_days(rng) -> Optional[Dict[str, Any]]:
    r = rng.random()
    if r < 0.15:
        return None
    if r < 0.2:
        return {"form": "set", "names": []}
    k = rng.choice([1, 1, 2, 3, 4, 5, 6, 7])
    names = rng.sample(DAYS, k)
    form = rng.choice(["set", "set", "set", "list", "tuple"])
    if form != "set" and rng.random() < 0.35:
        names = names + [rng.choice(names)]
        rng.shuffle(names)
    return {"form": form, "names": names}


def heavy_delay(rng) -> float:
    r = rng.random()
    if r < 0.5:
        return round(rng.uniform(0.0005, 0.02), 6)
    if r < 0.85:
        return round(rng.uniform(0.02, 1.0), 6)
    # (never longer than a few seconds: an implementation may legitimately give up on a silent device after 5-10 s)
    return round(rng.uniform(1.0, 4.0), 6)


def gen_garbage(rng, maxlen=1500) -> str:
    r = rng.random()
    if r < 0.4:
        n = rng.randrange(1, 60)
    elif r < 0.8:
        n = rng.randrange(60, 200)
    elif r < 0.93:
        n = rng.randrange(200, 1025)
    else:
        n = rng.randrange(1025, maxlen + 1)
    mode = rng.random()
    if mode < 0.6:
        return rng.randbytes(n).hex()
    if mode < 0.8:
        return (bytes([rng.randrange(256)]) * n).hex()
    return (b"\xfe\xf0" + rng.randbytes(max(0, n - 2))).hex()


def gen_reply_fault(rng, kinds: List[str], reply_len_hint: int = 56) -> Optional[dict]:
    """One reply spec; None = plain ok with default delay."""
    k = rng.choice(kinds)
    d = heavy_delay(rng)
    if k == "ok":
        return {"mode": "ok", "delay": d}
    if k == "eof":
        return {"mode": "eof", "delay": d}
    if k == "rst":
        return {"mode": "rst", "delay": d, "err": rng.choice(["reset", "reset", "timedout", "hostunreach", "netunreach"])}
    if k == "truncate":
        return {"mode": "truncate", "n": rng.choice([1, 2, 7, 8, 11, 12, 13, 40, 44, 74, 75, 76, 77, 80, 90, 100, 106,
                                                     rng.randrange(1, 110)]), "delay": d}
    if k == "segment":
        c1 = rng.randrange(1, max(2, reply_len_hint))
        cuts = [c1] if rng.random() < 0.7 else sorted({c1, rng.randrange(1, max(2, reply_len_hint))})
        return {"mode": "segment", "cuts": cuts, "gap": rng.choice([0.0, 0.000001, 0.001, 0.5]), "delay": d}
    if k == "garbage":
        return {"mode": "garbage", "bytes": gen_garbage(rng), "delay": d}
    if k == "corrupt":
        n = rng.choice([1, 1, 2, 5])
        return {"mode": "corrupt", "edits": [[rng.randrange(0, 110), rng.randrange(256)] for _ in range(n)], "delay": d}
    if k == "extra":
        return {"mode": "extra", "bytes": rng.randbytes(rng.randrange(1, 80)).hex(), "delay": d}
    raise ValueError(k)


def gen_sends(rng, n_units: int) -> List[Any]:
    """Client-side send plan: short writes / would-block, per send call."""
    out: List[Any] = []
    for _ in range(n_units * 2):
        r = rng.random()
        if r < 0.25:
            out.append(rng.choice([1, 2, 3, 39, 40, 41, 43, 44, rng.randrange(1, 120)]))
        elif r < 0.35:
            out.append("block")
        else:
            out.append(None)
    return out


def gen_device(rng, kind: str, idx: int) -> Dict[str, Any]:
    st: Dict[str, Any] = {}
    if kind in ("heater", "plug"):
        st = {"on": rng.random() < 0.6, "watts": rng.choice([0, 1, 255, 256, 2600, 65535, 61694, 65264, 2570, rng.randrange(65536)]),
              "time_left": rng.choice([0, 1, 59, 60, 3599, 3600, 86399, 61694, 65264, 65536, 256, 7680, rng.randrange(86400)]),
              "time_on": rng.choice([61694, 65264, 65536, 15360, rng.randrange(86400), rng.randrange(86400)]),
              "auto_off": rng.choice([3600, 86340, 61694, 65264, 65536, rng.randrange(86400)])}
    elif kind == "runner":
        st = {"position": rng.choice([0, 1, 50, 99, 100, 101, 255, rng.randrange(256)]),
              "direction": rng.choice(["0000", "0100", "0001"])}
    else:
        st = gen_breeze_state(rng)
    dev = {"kind": kind, "ip": rng.choice(["192.168.1.%d" % (33 + idx), "192.168.50.%d" % (77 + idx)]) if rng.random() < 0.1 else
           "10.%d.%d.%d" % (rng.randrange(256), rng.randrange(256), 2 + idx), "state": st, "delay": 0.002}
    if rng.random() < 0.12:
        dev["sessions"] = rng.sample(SPECIAL_SESSIONS, rng.randrange(1, 5))     # distinct special values, then hashed ones
    return dev


def gen_breeze_state(rng, remote_id: Optional[str] = None, wide: bool = True) -> Dict[str, Any]:
    """What the thermostat reports.  `wide`: any byte as target temperature (C08 speaks about every reply); C16 is
    stated for current states with targets 16..30, so its strata stay inside that range."""
    rid = remote_id or "".join(rng.choice("ABCDEFGHIJKLMNOPQRSTUVWXYZ0123456789") for _ in range(rng.choice([1, 4, 7, 8, 8, 8])))
    return {"t_on": rng.random() < 0.5, "t_mode": rng.randrange(1, 6),
            "t_target": rng.choice([rng.randrange(16, 31), rng.randrange(16, 31), 0, 15, 31, 60, 127, 128, 255, rng.randrange(256)])
            if wide else rng.randrange(16, 31),
            "t_fan": rng.randrange(4), "t_swing": rng.randrange(2),
            "t_temp10": rng.choice([0, 1, 255, 256, 281, 65535, 61694, 65264, 32767, 32768, rng.randrange(65536)]), "t_remote": rid}


def gen_breeze_args(rng, full: bool = False) -> Dict[str, Any]:
    a: Dict[str, Any] = {}
    p = rng.choice([0.15, 0.5, 0.85])
    if rng.random() < p:
        a["state"] = rng.choice(["ON", "OFF"])
    if rng.random() < p:
        a["mode"] = rng.choice(["AUTO", "DRY", "FAN", "COOL", "HEAT"])
    if rng.random() < p:
        a["target"] = rng.choice([0, 1, 10, 15, 16, 24, 30, 31, 45, 60, rng.randrange(0, 61)])
    if rng.random() < p:
        a["fan"] = rng.choice(["AUTO", "LOW", "MEDIUM", "HIGH"])
    if rng.random() < p:
        a["swing"] = rng.choice(["ON", "OFF"])
    if rng.random() < 0.25:
        a["update_state"] = True
    return a


def gen_op(rng, kind: str, client: Dict[str, Any]) -> Dict[str, Any]:
    a: Dict[str, Any] = {}
    if kind == "control_device":
        a = {"command": rng.choice(["ON", "OFF"])}
        if rng.random() < 0.8:
            a["minutes"] = gen_minutes(rng)
    elif kind == "set_auto_shutdown":
        a = {"seconds": gen_auto_seconds(rng)}
    elif kind == "set_device_name":
        a = {"name": gen_name(rng)}
    elif kind == "delete_schedule":
        a = {"slot": str(rng.randrange(8))}
    elif kind == "create_schedule":
        a = {"start": gen_hhmm(rng), "end": gen_hhmm(rng), "days": gen_days(rng)}
    elif kind == "set_position":
        a = {"position": rng.choice([0, 1, 9, 10, 15, 16, 50, 99, 100, rng.randrange(101)])}
    elif kind == "control_breeze_device":
        a = gen_breeze_args(rng)
    elif kind == "login":
        if client["type"] == 2:
            a = {"device_type": "BREEZE" if client["devkind"] == "breeze" else rng.choice(["RUNNER", "RUNNER_MINI"])}
    return {"kind": kind, "args": a}


def ops_for(client: Dict[str, Any]) -> List[str]:
    if client["type"] == 1:
        return T1_OPS
    return T2B_OPS if client["devkind"] == "breeze" else T2R_OPS


def make_clients(rng, n: int, kinds: Optional[List[str]] = None, same_device: bool = False):
    devices, clients = [], []
    for i in range(n):
        kind = (kinds[i] if kinds else rng.choice(["heater", "plug", "runner", "breeze"]))
        if same_device and i > 0 and devices[0]["kind"] == kind:
            di = 0
        else:
            devices.append(gen_device(rng, kind, len(devices)))
            di = len(devices) - 1
        cl = {"type": 1 if kind in ("heater", "plug") else 2, "device": di, "id": gen_id(rng), "key": gen_key(rng),
              "devkind": kind}
        if i > 0 and clients[0]["devkind"] == kind and rng.random() < 0.3:
            # two API objects for one and the same device (the normal case in a home-automation process)
            cl["id"], cl["key"], cl["device"] = clients[0]["id"], clients[0]["key"], clients[0]["device"]
        if kind == "breeze":
            cl["irset"] = irsets.gen_irset(rng)
            devices[di]["state"]["t_remote"] = cl["irset"]["IRSetID"]
        clients.append(cl)
    return devices, clients


def base_config(rng, zone_sensitive: bool = False) -> Dict[str, Any]:
    tz = rng.choice(ZONES)
    cfg = {"sched": rng.randrange(1 << 30), "tz": tz,
           "epoch0": gen_epoch_zone(rng, tz) if zone_sensitive else gen_epoch_any(rng)}
    if os.path.exists("/usr/share/zoneinfo/" + tz):
        r = rng.random()
        if r < 0.15:
            cfg["tz_form"] = "colon"        # TZ=":Europe/Paris"
        elif r < 0.25:
            cfg["tz_form"] = "path"         # TZ=":/usr/share/zoneinfo/Europe/Paris"
    r = rng.random()
    if r < 0.2:
        cfg["log"] = "DEBUG"        # the user has turned the library's debug logging on
    elif r < 0.25:
        cfg["log"] = "INFO"
    return cfg


def uidify(steps: List[dict]) -> List[dict]:
    for i, s in enumerate(steps):
        s["uid"] = i + 1
    return steps


# ---------------------------------------------------------------- per-property


def gen_mixed(rng, n_clients: int, max_ops: int, reply_kinds: List[str], send_faults: bool, jumps: bool,
              zone_sensitive: bool = False, kinds: Optional[List[str]] = None, op_filter=None,
              same_device: bool = False) -> Dict[str, Any]:
    cfg = base_config(rng, zone_sensitive)
    devices, clients = make_clients(rng, n_clients, kinds, same_device)
    cfg["devices"], cfg["clients"] = devices, clients
    steps: List[dict] = []
    for ci, cl in enumerate(clients):
        steps.append({"kind": "connect", "client": ci})
    n_ops = [rng.randrange(1, max_ops + 1) for _ in clients]
    per = []
    for ci, cl in enumerate(clients):
        seq = []
        choices = ops_for(cl)
        if op_filter:
            choices = [o for o in choices if op_filter(o)] or choices
        for _ in range(n_ops[ci]):
            kind = rng.choice(choices)
            st = gen_op(rng, kind, cl)
            st["client"] = ci
            nrep = 4 if kind == "control_breeze_device" else 2
            if reply_kinds != ["ok"] or rng.random() < 0.9:
                st["replies"] = [gen_reply_fault(rng, reply_kinds) for _ in range(nrep)]
            if send_faults and rng.random() < 0.5:
                st["sends"] = gen_sends(rng, nrep)
            if rng.random() < 0.6:
                st["gap"] = rng.choice([0.0, 0.001, 0.5, 1.0, 2.5, 60.0, 3600.0, rng.uniform(0, 10)])
            if jumps and rng.random() < 0.15:
                st["jump_during"] = {"after": round(rng.uniform(0, 2.0), 4),
                                     "s": rng.choice([-86400, -3600, -61, -1.5, 1.5, 61, 3600, 86400, 7 * 86400])}
            seq.append(st)
            if rng.random() < 0.06:
                seq.append({"kind": "disconnect", "client": ci})
                seq.append({"kind": rng.choice(["connect", "aenter"]), "client": ci})
            if jumps and rng.random() < 0.1:
                seq.append({"kind": "wall_jump", "client": ci,
                            "s": rng.choice([-86400 * 3, -3600, -60, -1, 1, 60, 3600, 86400 * 3])})
            if cl["devkind"] != "none" and rng.random() < 0.15:
                seq.append({"kind": "mutate", "client": ci, "fields": gen_device(rng, cl["devkind"], 0)["state"]
                            if cl["devkind"] != "breeze" else
                            gen_breeze_state(rng, devices[cl["device"]]["state"]["t_remote"])})
        per.append(seq)
    # interleave the per-client lists into one list (order inside a client is what matters)
    idx = [0] * len(per)
    while any(idx[i] < len(per[i]) for i in range(len(per))):
        i = rng.choice([j for j in range(len(per)) if idx[j] < len(per[j])])
        steps.append(per[i][idx[i]])
        idx[i] += 1
    for ci in range(len(clients)):
        steps.append({"kind": "disconnect", "client": ci})
    return {"engine": "tcp", "config": cfg, "steps": uidify(steps)}


def gen_long(rng, n_ops: int, kinds: Optional[List[str]] = None) -> Dict[str, Any]:
    """State that builds up: a few hundred operations on one connection / one API object."""
    cfg = base_config(rng, zone_sensitive=rng.random() < 0.5)
    devices, clients = make_clients(rng, 1, kinds)
    cfg["devices"], cfg["clients"] = devices, clients
    cl = clients[0]
    steps: List[dict] = [{"kind": "connect", "client": 0}]
    choices = ops_for(cl)
    for i in range(n_ops):
        st = gen_op(rng, rng.choice(choices), cl)
        st["client"] = 0
        if rng.random() < 0.1:
            st["gap"] = rng.choice([0.5, 60.0, 3600.0, 86400.0])
        if rng.random() < 0.03:
            st["replies"] = [gen_reply_fault(rng, ["eof", "truncate", "garbage", "ok"]), None, None, None]
            steps.append(st)
            steps.append({"kind": "disconnect", "client": 0})
            steps.append({"kind": "connect", "client": 0})
            continue
        steps.append(st)
        if rng.random() < 0.02:
            steps.append({"kind": "disconnect", "client": 0})
            steps.append({"kind": "connect", "client": 0})
    steps.append({"kind": "disconnect", "client": 0})
    return {"engine": "tcp", "config": cfg, "steps": uidify(steps)}


def gen_c01_stall(rng) -> Dict[str, Any]:
    """The device stops reading in the middle of a frame; sometimes the caller gives up and disconnects."""
    cfg = base_config(rng)
    devices, clients = make_clients(rng, 1)
    cfg["devices"], cfg["clients"] = devices, clients
    cl = clients[0]
    steps: List[dict] = [{"kind": rng.choice(["connect", "aenter"]), "client": 0}]
    for _ in range(rng.randrange(1, 4)):
        kind = rng.choice([o for o in ops_for(cl) if o != "login"])
        st = gen_op(rng, kind, cl)
        st["client"] = 0
        stall = round(rng.choice([0.05, 0.5, 2.0, rng.uniform(0.01, 5.0)]), 4)
        which = rng.choice([0, 1, 1, 1])          # stall inside the login frame or the command frame
        sends: List[Any] = [None] * which + [{"accept": rng.choice([1, 2, 39, 40, 41, 44, rng.randrange(1, 90)]), "stall": stall}]
        st["sends"] = sends
        if rng.random() < 0.6:
            st["timeout"] = round(rng.choice([0.01, 0.3, stall / 2, stall * 2]), 4)
        steps.append(st)
        if st.get("timeout") and st["timeout"] < stall:
            break       # the exchange is out of step after an abandoned operation: the user disconnects
    steps.append({"kind": rng.choice(["disconnect", "aexit"]), "client": 0, "exc": rng.random() < 0.5})
    return {"engine": "tcp", "config": cfg, "steps": uidify(steps)}


def all_op_kinds() -> List[tuple]:
    """(devkind, op kind) for the 15 operation kinds of both API types."""
    out = [("heater", k) for k in T1_OPS]
    out += [("runner", k) for k in T2R_OPS]
    out += [("breeze", k) for k in T2B_OPS if k != "login"]
    return out


def gen_c03_pairs(rng, index: int) -> Dict[str, Any]:
    """Systematic: every sequence of length <= 2 on one instance, and every cross-instance concurrent pair."""
    kinds = all_op_kinds()
    n1 = len(kinds)
    same = [(a, b) for a in kinds for b in kinds if a[0] == b[0]]
    cross = [(a, b) for a in kinds for b in kinds]
    cases = [("single", k, None) for k in kinds] + [("seq", a, b) for a, b in same] + [("conc", a, b) for a, b in cross]
    case = cases[index % len(cases)]
    cfg = base_config(rng)
    if case[0] in ("single", "seq"):
        devices, clients = make_clients(rng, 1, [case[1][0]])
        cfg["devices"], cfg["clients"] = devices, clients
        steps = [{"kind": "connect", "client": 0}]
        for k in [case[1]] + ([case[2]] if case[2] else []):
            st = gen_op(rng, k[1], clients[0])
            st["client"] = 0
            st["replies"] = [{"mode": "ok", "delay": heavy_delay(rng)} for _ in range(4)]
            st["gap"] = rng.choice([0.0, 1.5, 60.0])
            steps.append(st)
        steps.append({"kind": "disconnect", "client": 0})
    else:
        devices, clients = make_clients(rng, 2, [case[1][0], case[2][0]], same_device=rng.random() < 0.3)
        cfg["devices"], cfg["clients"] = devices, clients
        steps = [{"kind": "connect", "client": 0}, {"kind": "connect", "client": 1}]
        for ci, k in ((0, case[1]), (1, case[2])):
            st = gen_op(rng, k[1], clients[ci])
            st["client"] = ci
            st["replies"] = [{"mode": "ok", "delay": round(rng.uniform(0.0005, 0.01), 6)} for _ in range(4)]
            steps.append(st)
        steps += [{"kind": "disconnect", "client": 0}, {"kind": "disconnect", "client": 1}]
    return {"engine": "tcp", "config": cfg, "steps": uidify(steps), "case": [case[0], list(case[1]), list(case[2]) if case[2] else None]}


def c03_triples() -> List[tuple]:
    kinds = all_op_kinds()
    return [(a, b, c) for a in kinds for b in kinds for c in kinds if a[0] == b[0] == c[0]]


_C03_TRIPLES = None


def gen_c03_triples(rng, index: int) -> Dict[str, Any]:
    """Systematic: every sequence of three operations on one instance."""
    global _C03_TRIPLES
    if _C03_TRIPLES is None:
        _C03_TRIPLES = c03_triples()
    case = _C03_TRIPLES[index % len(_C03_TRIPLES)]
    cfg = base_config(rng)
    devices, clients = make_clients(rng, 1, [case[0][0]])
    cfg["devices"], cfg["clients"] = devices, clients
    steps = [{"kind": "connect", "client": 0}]
    for k in case:
        st = gen_op(rng, k[1], clients[0])
        st["client"] = 0
        st["replies"] = [{"mode": "ok", "delay": heavy_delay(rng)} for _ in range(4)]
        st["gap"] = rng.choice([0.0, 1.5, 60.0])
        steps.append(st)
    steps.append({"kind": "disconnect", "client": 0})
    return {"engine": "tcp", "config": cfg, "steps": uidify(steps), "case": [list(k) for k in case]}


def c03_triple_count() -> int:
    global _C03_TRIPLES
    if _C03_TRIPLES is None:
        _C03_TRIPLES = c03_triples()
    return len(_C03_TRIPLES)


C03_PAIR_CASES = len(all_op_kinds()) + sum(1 for a in all_op_kinds() for b in all_op_kinds() if a[0] == b[0]) + len(all_op_kinds()) ** 2


def exchange_len(devkind: str, op: str) -> int:
    return 1 if op == "login" else (4 if op == "control_breeze_device" else 2)


def c09_cases() -> List[tuple]:
    """(devkind, op, step index, fault family, parameter) — a few thousand cases."""
    cases = []
    for devkind, op in all_op_kinds():
        if op == "login":
            continue
        n = exchange_len(devkind, op)
        for step in range(n):
            for rep in range(24 if op == "control_breeze_device" else 4):
                cases.append((devkind, op, step, "eof", rep))
                cases.append((devkind, op, step, "extra", rep))
            for plen in range(1, 110):
                cases.append((devkind, op, step, "truncate", plen))
            for off in range(0, 110, 1):
                cases.append((devkind, op, step, "corrupt", off))
    return cases


_C09 = None


def gen_c09_systematic(rng, index: int) -> Dict[str, Any]:
    global _C09
    if _C09 is None:
        _C09 = c09_cases()
    devkind, op, step, fam, par = _C09[index % len(_C09)]
    cfg = base_config(rng)
    devices, clients = make_clients(rng, 1, [devkind])
    cfg["devices"], cfg["clients"] = devices, clients
    st = gen_op(rng, op, clients[0])
    if op == "control_breeze_device":
        # argument shapes that reach every path of the exchange: full, state-only, swing-only, update-only
        shape = rng.choice(["state+swing", "state+swing", "swing-only", "state-only", "update", "update-swing-only"])
        a = {}
        if shape in ("state+swing", "state-only", "update"):
            a["state"] = rng.choice(["ON", "OFF"])
        if shape in ("state+swing", "swing-only", "update-swing-only"):
            a["swing"] = rng.choice(["ON", "OFF"])
        if shape.startswith("update"):
            a["update_state"] = True
        st["args"] = a
        special = rng.random() < 0.6
        clients[0]["irset"] = irsets.gen_irset(rng, special=special, density=1.0)
        devices[0]["state"]["t_remote"] = clients[0]["irset"]["IRSetID"]
        devices[0]["state"]["t_mode"] = rng.choice(irsets.capabilities(clients[0]["irset"])["modes"])
    st["client"] = 0
    reps: List[Optional[dict]] = [None] * 4
    if fam == "eof":
        reps[step] = {"mode": "eof"}
    elif fam == "extra":
        reps[step] = {"mode": "extra", "bytes": rng.randbytes(rng.randrange(1, 40)).hex()}
    elif fam == "truncate":
        reps[step] = {"mode": "truncate", "n": par}
    else:
        reps[step] = {"mode": "corrupt", "edits": [[par, rng.choice([0x00, 0xff, 0x80, 0x7f, rng.randrange(256)])]]}
    st["replies"] = reps
    steps = [{"kind": "connect", "client": 0}, st, {"kind": "disconnect", "client": 0}]
    return {"engine": "tcp", "config": cfg, "steps": uidify(steps), "case": [devkind, op, step, fam, par]}


def c09_case_count() -> int:
    global _C09
    if _C09 is None:
        _C09 = c09_cases()
    return len(_C09)


def gen_c08(rng) -> Dict[str, Any]:
    kind = rng.choice(["heater", "plug", "runner", "breeze"])
    cfg = base_config(rng)
    devices, clients = make_clients(rng, 1, [kind])
    cfg["devices"], cfg["clients"] = devices, clients
    cl = clients[0]
    q = {"heater": "get_state", "plug": "get_state", "runner": "get_shutter_state", "breeze": "get_breeze_state"}[kind]
    steps: List[dict] = [{"kind": "connect", "client": 0}]
    for _ in range(rng.randrange(1, 8)):
        r = rng.random()
        if r < 0.55:
            steps.append({"kind": q, "client": 0, "args": {}, "replies": [{"mode": "ok", "delay": heavy_delay(rng)},
                                                                           {"mode": "ok", "delay": heavy_delay(rng)}]})
        elif r < 0.75:
            steps.append({"kind": "mutate", "client": 0, "fields": gen_device(rng, kind, 0)["state"] if kind != "breeze"
                          else gen_breeze_state(rng)})
        elif r < 0.85:
            steps.append(dict(gen_op(rng, "login", cl), client=0))
        else:
            ctl = [o for o in ops_for(cl) if o not in ("login",) and not o.startswith("get_")]
            st = gen_op(rng, rng.choice(ctl), cl)
            st["client"] = 0
            steps.append(st)
        if rng.random() < 0.2:
            steps.append({"kind": "wall_jump", "client": 0, "s": rng.choice([-3600, 3600, 86400])})
    steps.append({"kind": q, "client": 0, "args": {}})
    steps.append({"kind": "disconnect", "client": 0})
    return {"engine": "tcp", "config": cfg, "steps": uidify(steps)}


def gen_sched_record(rng, zone: str, around: float) -> str:
    from refs import codecs
    slot = rng.choice([0, 1, 2, 3, 4, 5, 6, 7, 8, 15, 16, 100, 254, 255, rng.randrange(256)])
    mask = rng.choice([0, 0x02, 0x80, 0xfe, 0xaa, rng.randrange(1, 128) * 2])
    base = int(around) + rng.randrange(-3 * 86400, 3 * 86400)
    start = base - base % 60
    end = start + 60 * rng.choice([0, 1, 30, 59, 60, 61, 600, 1439, rng.randrange(1440)])
    if rng.random() < 0.15:
        tr = zone_transitions(zone)
        if tr:
            t = rng.choice(tr) + 60 * rng.randrange(-90, 90)
            start = t - t % 60
            end = start + 60 * rng.randrange(0, 240)
    if rng.random() < 0.04:
        # beyond 2038-01-19: seconds that no longer fit a signed 32-bit integer
        start = rng.choice([rng.randrange(2**31 - 3600, 2**31 + 3600), rng.randrange(2**31, 2**32 - 86400 * 2)])
        start -= start % 60
        end = start + 60 * rng.randrange(0, 1440)
    start = min(max(start, 0), 2**32 - 1)
    end = min(max(end, 0), 2**32 - 1)
    return codecs.sched_record(slot, rng.randrange(2), mask, rng.randrange(2), start, end).hex()


def gen_c10(rng) -> Dict[str, Any]:
    cfg = base_config(rng, zone_sensitive=True)
    devices, clients = make_clients(rng, 1, [rng.choice(TYPE1_KINDS)])
    cfg["devices"], cfg["clients"] = devices, clients
    n = rng.choice([0, 0, 1, 2, 3, 5, 8])
    recs = []
    used = set()
    for _ in range(n):
        r = gen_sched_record(rng, cfg["tz"], cfg["epoch0"])
        if rng.random() < 0.93 and r[:2] in used:
            continue
        used.add(r[:2])
        recs.append(r)
    if recs and rng.random() < 0.3:
        # two slots programmed alike: records that differ in nothing but the slot id are still two schedules
        # ("one schedule per distinct slot id"; seeded change c10i-round9 de-duplicated them by content)
        twin = rng.choice(recs)
        free = [s for s in range(256) if "%02x" % s not in used]
        slot = "%02x" % rng.choice(free[:8] if rng.random() < 0.7 else free)
        used.add(slot)
        recs.insert(rng.randrange(len(recs) + 1), slot + twin[2:])
    devices[0]["schedules"] = recs
    steps: List[dict] = [{"kind": "connect", "client": 0}]
    for _ in range(rng.randrange(1, 7)):
        r = rng.random()
        if r < 0.4:
            steps.append({"kind": "get_schedules", "client": 0, "args": {}})
            if rng.random() < 0.06:
                # the device hangs up instead of listing: "an empty reply yields no schedules"
                steps[-1]["replies"] = [None, {"mode": "eof"}]
                steps.append({"kind": "disconnect", "client": 0})
                steps.append({"kind": "connect", "client": 0})
        elif r < 0.8:
            a = {"start": gen_hhmm(rng, 0.03), "end": gen_hhmm(rng, 0.03), "days": gen_days(rng)}
            steps.append({"kind": "create_schedule", "client": 0, "args": a})
        elif r < 0.9:
            steps.append({"kind": "delete_schedule", "client": 0, "args": {"slot": str(rng.randrange(8))}})
        else:
            steps.append({"kind": "wall_jump", "client": 0,
                          "s": rng.choice([3600, 7200, 86400, 3 * 86400, 30 * 86400, 200 * 86400, -86400])})
        if rng.random() < 0.3:
            steps[-1]["gap"] = rng.choice([1.0, 3600.0, 86400.0])
    steps.append({"kind": "get_schedules", "client": 0, "args": {}})
    steps.append({"kind": "disconnect", "client": 0})
    return {"engine": "tcp", "config": cfg, "steps": uidify(steps)}


def gen_c16(rng, eof_step: Optional[int] = None) -> Dict[str, Any]:
    cfg = base_config(rng)
    devices, clients = make_clients(rng, 1, ["breeze"])
    cl = clients[0]
    cl["irset"] = irsets.gen_irset(rng, special=rng.random() < 0.5, toggle=rng.random() < 0.5)
    devices[0]["state"] = gen_breeze_state(rng, cl["irset"]["IRSetID"], wide=False)
    cap = irsets.capabilities(cl["irset"])
    lo_t, hi_t = (cap["min"], cap["max"]) if cap["min"] is not None else (16, 30)
    if rng.random() < 0.85:
        devices[0]["state"]["t_mode"] = rng.choice(cap["modes"])
    cfg["devices"], cfg["clients"] = devices, clients
    steps: List[dict] = [{"kind": "connect", "client": 0}]
    earlier: List[Dict[str, Any]] = []
    for i in range(rng.choice([1, 2, 3, 4, 4, 6, 8])):
        st = {"kind": "control_breeze_device", "client": 0, "args": gen_breeze_args(rng)}
        if "mode" in st["args"] and rng.random() < 0.8:
            st["args"]["mode"] = {1: "AUTO", 2: "DRY", 3: "FAN", 4: "COOL", 5: "HEAT"}[rng.choice(cap["modes"])]
        r = rng.random()
        if earlier and r < 0.3:
            st["args"] = dict(rng.choice(earlier))                       # the very same request again, later
        elif earlier and r < 0.45:
            st["args"] = dict(rng.choice(earlier))
            st["args"]["target"] = rng.randrange(lo_t, hi_t + 1)         # same shape, another temperature
        elif r < 0.55:
            st["args"] = {"state": rng.choice(["ON", "OFF"])}            # just the power button
        earlier.append(dict(st["args"]))
        reps: List[Optional[dict]] = [{"mode": "ok", "delay": heavy_delay(rng)} for _ in range(4)]
        if eof_step is not None and i == 0:
            reps[eof_step] = {"mode": "eof"}
        elif eof_step is None and rng.random() < 0.08:
            reps[rng.randrange(4)] = {"mode": "eof"}
        st["replies"] = reps
        steps.append(st)
        if eof_step is not None:
            break
        if rng.random() < 0.3:
            steps.append({"kind": "mutate", "client": 0, "fields": gen_breeze_state(rng, cl["irset"]["IRSetID"], wide=False)})
        if rng.random() < 0.3:
            steps.append({"kind": "get_breeze_state", "client": 0, "args": {}})
    steps.append({"kind": "disconnect", "client": 0})
    return {"engine": "tcp", "config": cfg, "steps": uidify(steps)}


C16_CASES = [(mask, special, toggle, upd, eof) for mask in range(32) for special in (False, True)
             for toggle in (False, True) for upd in (False, True) for eof in (None, 0, 1, 2, 3)]


def gen_c16_systematic(rng, index: int) -> Dict[str, Any]:
    """Every subset of the five settings x remote kind x update-only flag x an empty reply at each step (or none)."""
    mask, special, toggle, upd, eof = C16_CASES[index % len(C16_CASES)]
    cfg = base_config(rng)
    devices, clients = make_clients(rng, 1, ["breeze"])
    cl = clients[0]
    cl["irset"] = irsets.gen_irset(rng, special=special, toggle=toggle, density=rng.choice([1.0, 1.0, 0.7]))
    cap = irsets.capabilities(cl["irset"])
    devices[0]["state"] = gen_breeze_state(rng, cl["irset"]["IRSetID"], wide=False)
    devices[0]["state"]["t_mode"] = rng.choice(cap["modes"])
    cfg["devices"], cfg["clients"] = devices, clients
    a: Dict[str, Any] = {}
    if mask & 1:
        a["state"] = rng.choice(["ON", "OFF"])
    if mask & 2:
        a["mode"] = {1: "AUTO", 2: "DRY", 3: "FAN", 4: "COOL", 5: "HEAT"}[rng.choice(cap["modes"])]
    if mask & 4:
        a["target"] = rng.choice([1, 15, 16, 24, 30, 31, 60, rng.randrange(1, 61)])
    if mask & 8:
        a["fan"] = rng.choice(["AUTO", "LOW", "MEDIUM", "HIGH"])
    if mask & 16:
        a["swing"] = rng.choice(["ON", "OFF"])
    if upd:
        a["update_state"] = True
    reps: List[Optional[dict]] = [{"mode": "ok", "delay": heavy_delay(rng)} for _ in range(4)]
    if eof is not None:
        reps[eof] = {"mode": "eof"}
    steps = [{"kind": "connect", "client": 0},
             {"kind": "control_breeze_device", "client": 0, "args": a, "replies": reps},
             {"kind": "disconnect", "client": 0}]
    return {"engine": "tcp", "config": cfg, "steps": uidify(steps), "case": [mask, special, toggle, upd, eof]}


LIFE_ALPHA = ["connect", "op_ok", "op_raise_reply", "op_raise_arg", "disconnect", "refused", "aenter", "aexit",
              "aexit_exc", "op_eof", "op_rst"]


def life_allowed(a: str, connected: bool, entered: bool) -> bool:
    """Well-behaved use: no connect while connected, operations only while connected, and the async context is left
    only after it has been entered successfully (Python never calls __aexit__ otherwise)."""
    if a in ("connect", "refused"):
        return not connected
    if a == "aenter":
        return not connected and not entered
    if a in ("aexit", "aexit_exc"):
        return entered
    if a == "disconnect":
        return True
    return connected


def life_next(a: str, connected: bool, entered: bool):
    if a == "connect":
        return True, entered
    if a == "aenter":
        return True, True
    if a == "refused":
        return False, entered
    if a == "disconnect":
        return False, entered
    if a in ("aexit", "aexit_exc"):
        return False, False
    return connected, entered


def life_sequences(maxlen: int) -> List[tuple]:
    """All well-behaved action sequences up to maxlen."""
    out: List[tuple] = []

    def rec(seq, connected, entered):
        if seq:
            out.append(tuple(seq))
        if len(seq) == maxlen:
            return
        for a in LIFE_ALPHA:
            if life_allowed(a, connected, entered):
                rec(seq + [a], *life_next(a, connected, entered))
    rec([], False, False)
    return out


_LIFE: Dict[int, List[tuple]] = {}


def life_cases(maxlen: int) -> List[tuple]:
    if maxlen not in _LIFE:
        _LIFE[maxlen] = life_sequences(maxlen)
    return _LIFE[maxlen]


def life_steps(rng, actions, cl) -> List[dict]:
    steps: List[dict] = []
    t1 = cl["type"] == 1
    for a in actions:
        if a == "connect":
            steps.append({"kind": "connect"})
        elif a == "refused":
            steps.append({"kind": rng.choice(["connect", "aenter"]), "connect": "refuse"})
        elif a == "aenter":
            steps.append({"kind": "aenter"})
        elif a == "disconnect":
            steps.append({"kind": "disconnect"})
        elif a == "aexit":
            steps.append({"kind": "aexit"})
        elif a == "aexit_exc":
            steps.append({"kind": "aexit", "exc": True, "exc_kind": rng.choice(["plain"] + BODY_EXCEPTION_KINDS)})
        elif a == "op_ok":
            k = "get_state" if t1 else ("get_shutter_state" if cl["devkind"] == "runner" else "get_breeze_state")
            steps.append({"kind": rng.choice([k, "control_device"]) if t1 else k,
                          "args": {"command": "ON"} if False else {}})
            if steps[-1]["kind"] == "control_device":
                steps[-1]["args"] = {"command": rng.choice(["ON", "OFF"])}
        elif a == "op_raise_reply":
            k = "get_state" if t1 else ("get_shutter_state" if cl["devkind"] == "runner" else "get_breeze_state")
            steps.append({"kind": k, "args": {}, "replies": [None, {"mode": "garbage", "bytes": rng.randbytes(rng.randrange(1, 60)).hex()}]})
        elif a == "op_raise_arg":
            if t1:
                steps.append({"kind": "set_device_name", "args": {"name": "x"}})
            else:
                k = "get_shutter_state" if cl["devkind"] == "runner" else "get_breeze_state"
                steps.append({"kind": k, "args": {}, "replies": [{"mode": "truncate", "n": 3}, {"mode": "truncate", "n": 5}]})
        elif a == "op_eof":
            k = "get_state" if t1 else ("get_shutter_state" if cl["devkind"] == "runner" else "get_breeze_state")
            steps.append({"kind": k, "args": {}, "replies": [rng.choice([None, {"mode": "eof"}]), {"mode": "eof"}]})
        elif a == "op_rst":
            k = "get_state" if t1 else ("get_shutter_state" if cl["devkind"] == "runner" else "get_breeze_state")
            how = {"mode": "rst", "err": rng.choice(["reset", "reset", "timedout", "hostunreach", "netunreach"])}
            steps.append({"kind": k, "args": {}, "replies": [rng.choice([None, dict(how)]), dict(how)]})
        steps[-1]["client"] = 0
        if rng.random() < 0.3:
            steps[-1]["gap"] = rng.choice([0.0, 0.5, 30.0])
    return steps


def gen_c18_two(rng) -> Dict[str, Any]:
    """Two API objects (same device, same id and key) going through their lifecycles side by side."""
    cfg = base_config(rng)
    kind = rng.choice(["heater", "plug", "runner", "breeze"])
    devices, clients = make_clients(rng, 2, [kind, kind], same_device=True)
    clients[1]["id"], clients[1]["key"], clients[1]["device"] = clients[0]["id"], clients[0]["key"], 0
    devices = devices[:1]
    cfg["devices"], cfg["clients"] = devices, clients
    per = []
    for ci in (0, 1):
        actions = []
        connected = entered = False
        for _ in range(rng.randrange(2, 9)):
            a = rng.choice([x for x in LIFE_ALPHA if life_allowed(x, connected, entered)])
            actions.append(a)
            connected, entered = life_next(a, connected, entered)
        st = life_steps(rng, actions, clients[ci])
        for s_ in st:
            s_["client"] = ci
        st.append({"kind": "disconnect", "client": ci})
        per.append(st)
    steps: List[dict] = []
    idx = [0, 0]
    while idx[0] < len(per[0]) or idx[1] < len(per[1]):
        i = rng.choice([j for j in (0, 1) if idx[j] < len(per[j])])
        steps.append(per[i][idx[i]])
        idx[i] += 1
    return {"engine": "tcp", "config": cfg, "steps": uidify(steps)}


def gen_c18(rng, index: Optional[int] = None, maxlen: int = 4, long: bool = False) -> Dict[str, Any]:
    cfg = base_config(rng)
    devices, clients = make_clients(rng, 1, [rng.choice(["heater", "plug", "runner", "breeze"])])
    cfg["devices"], cfg["clients"] = devices, clients
    if index is not None:
        cases = life_cases(maxlen)
        actions = cases[index % len(cases)]
    else:
        actions = []
        connected = entered = False
        for _ in range(rng.randrange(80, 200) if long else rng.randrange(1, 13)):
            a = rng.choice([x for x in LIFE_ALPHA if life_allowed(x, connected, entered)])
            actions.append(a)
            connected, entered = life_next(a, connected, entered)
    steps = life_steps(rng, actions, clients[0])
    if rng.random() < 0.7 and steps[-1]["kind"] not in ("disconnect", "aexit"):
        steps.append({"kind": "disconnect", "client": 0})
    return {"engine": "tcp", "config": cfg, "steps": uidify(steps), "case": list(actions)}
