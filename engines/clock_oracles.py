"""Oracles for the clock engine."""
from __future__ import annotations

import re
from typing import Any, Dict, List, Tuple

from refs import localtime
from .tcp_oracles import classify_hhmm

WEEKDAYS = ["monday", "tuesday", "wednesday", "thursday", "friday", "saturday", "sunday"]
DAY_IDX = {n.upper(): i for i, n in enumerate(WEEKDAYS)}


def cnt(c, k, n=1):
    c[k] = c.get(k, 0) + n


def offset_class(zone: str, wall: float) -> str:
    off = localtime.local_dt(zone, wall).utcoffset().total_seconds()
    if off == 0:
        return "utc-offset-0"
    if off % 3600:
        return "fractional-offset"
    return "east" if off > 0 else "west"


def judge_c11(scn, run) -> Tuple[List[tuple], Dict[str, int]]:
    v: List[tuple] = []
    c: Dict[str, int] = {}
    z = run.tz
    for o in run.obs:
        if o["kind"] == "decode":
            cnt(c, "judged-decode")
            want = localtime.hhmm(z, o["epoch"])
            if o["dec"] != ("ok", want):
                v.append(("C11/decode/%s" % offset_class(z, o["epoch"]),
                          "epoch %d in %s is %s local, decoded as %r" % (o["epoch"], z, want, o["dec"])))
            continue
        if o["kind"] != "roundtrip":
            continue
        s = o["s"]
        cls = classify_hhmm(s)
        if cls == "reject":
            cnt(c, "judged-must-reject")
            if o["enc"][0] != "exc":
                v.append(("C11/malformed-accepted", "%r is not a valid HH:MM but encoded to %r" % (s, o["enc"][1])))
            continue
        if cls != "accepted":
            cnt(c, "grey:lenient-string")
            continue
        today = localtime.local_dt(z, o["wall"]).date()
        cands = localtime.epochs_for(z, today, int(s[:2]), int(s[3:]))
        gap = not cands
        for w1 in list(o.get("walls", [])) + [o.get("wall1", o["wall"])]:
            today1 = localtime.local_dt(z, w1).date()
            if today1 != today:
                cnt(c, "probe:clock-crossed-midnight-during-call")
                more = localtime.epochs_for(z, today1, int(s[:2]), int(s[3:]))
                if not more:
                    gap = True
                cands = cands + [e for e in more if e not in cands]
        if gap or not cands:
            cnt(c, "grey:nonexistent-local-time")          # the time does not exist on one of the possible dates
            continue
        if len(cands) > 1:
            cnt(c, "probe:ambiguous-local-time")
        cnt(c, "judged")
        if o["enc"][0] != "ok":
            v.append(("C11/valid-time-raised/%s" % o["enc"][1], "%s on %s in %s raised %s(%s)" % (s, today, z, o["enc"][1], o["enc"][2])))
            continue
        try:
            e = int.from_bytes(bytes.fromhex(o["enc"][1]), "little")
            ok = len(o["enc"][1]) == 8
        except ValueError:
            e, ok = None, False
        if not ok or e not in cands:
            got_local = localtime.local_dt(z, e).isoformat() if e is not None else None
            v.append(("C11/encode/%s" % offset_class(z, o["wall"]),
                      "%s on local date %s in %s should encode to one of %s, got %r (= %s local)" % (
                          s, today, z, cands, o["enc"][1], got_local)))
            continue
        if o["dec"] != ("ok", s):
            v.append(("C11/roundtrip/%s" % offset_class(z, o["wall"]),
                      "%s on %s in %s encoded to %d but decoded back as %r" % (s, today, z, e, o["dec"])))
    return v, c


def parse_text(text: str):
    t = text.lower()
    m = re.search(r"\bnext\s+([a-z]+)", t)
    if m:
        return ("next", m.group(1))
    if re.search(r"\btomorrow\b", t):
        return ("tomorrow", None)
    if re.search(r"\btoday\b", t):
        return ("today", None)
    return ("?", None)


def judge_c13(scn, run) -> Tuple[List[tuple], Dict[str, int]]:
    v: List[tuple] = []
    c: Dict[str, int] = {}
    z = run.tz
    for o in run.obs:
        if o["kind"] != "next_run":
            continue
        d = localtime.local_dt(z, o["wall"])
        wd = d.weekday()
        nm = d.hour * 60 + d.minute
        _h, _m = o["start"].split(":")
        sm = int(_h) * 60 + int(_m)
        if len(_h) < 2:
            cnt(c, "probe:start-hour-unpadded")
        days = {DAY_IDX[n] for n in o["days"]}
        import datetime as _dt
        utc_wd = _dt.datetime.fromtimestamp(o["wall"], _dt.timezone.utc).weekday()
        if utc_wd != wd:
            cnt(c, "probe:local-weekday-differs-from-utc")
        if o["res"][0] != "ok":
            v.append(("C13/raised/%s" % o["res"][1], "next-run text for start %s days %s raised %s(%s)" % (
                o["start"], o["days"], o["res"][1], o["res"][2])))
            continue
        got = parse_text(o["res"][1])
        if not days:
            cnt(c, "judged-no-days")
            if got[0] != "today":
                v.append(("C13/no-days-not-today", "no days selected but text is %r" % o["res"][1]))
            continue
        def accept_at(wall):
            dd = localtime.local_dt(z, wall)
            w, n = dd.weekday(), dd.hour * 60 + dd.minute
            acc = []
            if w in days and sm > n:
                acc.append(("today", None))
            elif w in days and sm == n:
                cnt(c, "grey:start-equals-now")
                acc.append(("today", None))
            if not acc or sm == n:
                k = next(k for k in range(1, 8) if (w + k) % 7 in days)
                acc.append(("tomorrow", None) if k == 1 else ("next", WEEKDAYS[(w + k) % 7]))
                if k == 7:
                    cnt(c, "probe:full-week-ahead")
                if k == 1 and w == 6:
                    cnt(c, "probe:sunday-to-monday")
            return acc

        accept = accept_at(o["wall"])
        # the clock may move while the call runs (ticking-clock runs): what is right for ANY reading the call took
        # (or for either end of the call) is accepted
        for w1 in list(o.get("walls", [])) + [o.get("wall1", o["wall"])]:
            d1 = localtime.local_dt(z, w1)
            if (d1.date(), d1.hour, d1.minute) != (d.date(), d.hour, d.minute):
                cnt(c, "probe:clock-crossed-minute-during-call")
                if d1.date() != d.date():
                    cnt(c, "probe:clock-crossed-midnight-during-call")
                accept = accept + [x for x in accept_at(w1) if x not in accept]
        cnt(c, "judged")
        if got not in accept:
            today_sel = wd in days
            situation = ("today-selected-still-ahead" if today_sel and sm > nm else
                         "today-selected-but-past" if today_sel else "today-not-selected")
            zone_part = "utc" if (utc_wd == wd and offset_class(z, o["wall"]) == "utc-offset-0") else "non-utc"
            v.append(("C13/wrong-day/%s/%s" % (situation, zone_part),
                      "local now %s (%s) in %s, start %s, days %s: text %r, expected %s" % (
                          d.strftime("%a %H:%M"), d.date(), z, o["start"], o["days"], o["res"][1], accept)))
        if got[0] == "next" and got[1] in WEEKDAYS and WEEKDAYS.index(got[1]) not in days:
            v.append(("C13/names-unselected-day", "text %r names a day that is not selected (%s)" % (o["res"][1], o["days"])))
    return v, c
