"""Oracles over a finished TCP run.  Each returns (violations, counters).

A violation is (key, message): the key names property, oracle clause and class
of input, and is what known-findings and the minimiser match on.
"""
from __future__ import annotations

import datetime as dt
import re
import struct
from typing import Any, Dict, List, Optional, Tuple

from refs import codecs, frames, irsets, localtime

Viol = Tuple[str, str]

MAX_MINUTES = 71582788
DAY_BITS = {"MONDAY": 0x02, "TUESDAY": 0x04, "WEDNESDAY": 0x08, "THURSDAY": 0x10, "FRIDAY": 0x20,
            "SATURDAY": 0x40, "SUNDAY": 0x80}
MODE_NUM = {"AUTO": 1, "DRY": 2, "FAN": 3, "COOL": 4, "HEAT": 5}
FAN_NUM = {"AUTO": 0, "LOW": 1, "MEDIUM": 2, "HIGH": 3}

CMD_KIND = {
    "get_state": "get_state1", "control_device": "control", "set_auto_shutdown": "auto_off",
    "set_device_name": "set_name", "get_schedules": "get_schedules", "delete_schedule": "delete_schedule",
    "create_schedule": "create_schedule", "stop": "runner_stop", "set_position": "runner_position",
    "get_shutter_state": "get_state2", "get_breeze_state": "get_state2",
}
STATE_QUERIES = ("get_state", "get_shutter_state", "get_breeze_state")
LIFECYCLE = ("connect", "disconnect", "aenter", "aexit")


def is_runtime_error(outcome) -> bool:
    """The operation raised RuntimeError or a subclass of it (the statement does not name an exact class)."""
    return outcome is not None and outcome[0] == "exc" and "RuntimeError" in outcome[3]


def final_reply(op) -> Optional[bytes]:
    """Bytes the application read after its last write (the final reply as it saw it); falls back to what the
    device sent when the library's reads are not observable through the StreamReader seam."""
    tr = getattr(op, "trace", None)
    if tr:
        last_w = max((i for i, (k, _) in enumerate(tr) if k == "w"), default=-1)
        reads = [d for k, d in tr[last_w + 1:] if k == "r"]
        if reads:
            return b"".join(reads)
        if any(k == "r" for k, _ in tr):
            return b""
    if op.exchanges:
        return op.exchanges[-1].sent
    return None


def reads_per_write(op) -> List[bytes]:
    """What the application read after each of its writes, joined (a client may fetch one reply with several
    reads: header then body, or a loop)."""
    tr = getattr(op, "trace", None) or []
    out: List[bytes] = []
    seen_w = False
    for k, d in tr:
        if k == "w":
            out.append(b"")
            seen_w = True
        elif seen_w:
            out[-1] += d
    return out


def cnt(c: Dict[str, int], k: str, n: int = 1):
    c[k] = c.get(k, 0) + n


def all_ops(run):
    for cl in run.clients:
        dirty: Dict[Any, bool] = {}
        for op in cl.ops:
            cid = getattr(op, "conn_cid", None)
            # had an earlier exchange on this connection been faulty (so that unread bytes may be lying around)?
            op.prior_fault = bool(dirty.get(cid))
            if any(ex.mode != "ok" for ex in op.exchanges):
                dirty[cid] = True
            if op.kind not in LIFECYCLE:
                yield cl, op


def login_read(op) -> Optional[bytes]:
    """The login reply as the application read it; if the library's reads are not observable through the
    StreamReader seam, what the device sent in one piece."""
    tr = getattr(op, "trace", None) or []
    if op.app_reads and any(k == "r" for k, _ in tr):
        # what was read between the operation's first write (the login frame) and its second: anything read before
        # the first write (a client may drain stale input first) is not the login reply
        ws = [i for i, (k, _) in enumerate(tr) if k == "w"]
        if ws:
            second = ws[1] if len(ws) > 1 else len(tr)
            reads = [d for k, d in tr[ws[0] + 1:second] if k == "r"]
            return b"".join(reads) if reads else None
        return None
    if op.app_reads:
        return op.app_reads[0]
    # (a client that does not read through StreamReader: what the device sent in one piece is what it got, unless
    #  leftovers of an earlier faulty exchange may have been taken for the login reply)
    if op.exchanges and op.exchanges[0].mode == "ok" and not getattr(op, "prior_fault", False):
        return op.exchanges[0].sent
    return None


def size_class(n: int) -> str:
    return "ge256" if n >= 256 else ("lt16" if n < 16 else "mid")


# ----------------------------------------------------------------------- C01


def judge_c01(scn, run) -> Tuple[List[Viol], Dict[str, int]]:
    v: List[Viol] = []
    c: Dict[str, int] = {}
    for cl in run.clients:
        for conn in cl.conns:
            for a in conn.anomalies:
                v.append(("C01/partial-rewrite", a))
        # whatever was started on the wire must have been completed by the time the run is over
        for cid, idx, acc, n, data in getattr(cl, "final_units", []):
            if acc:
                cnt(c, "judged-wire-units")
            if 0 < acc < n and not run.deadlock:
                v.append(("C01/partial-frame-on-wire/%s" % frames.classify(data),
                          "only %d of the %d bytes of a %s frame ever reached the device on connection %d" % (
                              acc, n, frames.classify(data), cid)))
            elif 0 < acc < n:
                cnt(c, "grey:deadlocked-run")
            if any(op.outcome and op.outcome[0] == "exc" and op.outcome[1] in ("TimeoutError", "CancelledError") for op in cl.ops):
                cnt(c, "probe:operation-abandoned-by-caller")
    # anything written while connecting, disconnecting or leaving the context must be a whole signed frame too
    for cl in run.clients:
        for op in cl.ops:
            # (judged on what the application handed to its writer; bytes a transport of a non-stream client flushes
            #  while closing are the tail of an earlier frame, not a frame of their own)
            if op.kind in LIFECYCLE and cl.app_writes_seen:
                for u in op.units:
                    cnt(c, "judged")
                    for p in frames.wellformed_problems(u):
                        v.append(("C01/%s/in-%s" % (p if len(p) < 20 else "too-short", op.kind),
                                  "%s wrote %d bytes that are not a whole signed frame (%s): %s" % (op.kind, len(u), p, u.hex()[:80])))
    for cl, op in all_ops(run):
        lr = login_read(op)
        for i, u in enumerate(op.units):
            kind = frames.classify(u)
            if i > 0 and (lr is None or len(lr) < 12):
                # frames that embed a session are outside the statement when the login reply carried none; a login
                # frame embeds none (the first one is written before any reply at all) and is judged wherever it occurs
                if not (kind in ("login1", "login2") and len(u) == len(op.units[0])
                        and frames.classify(op.units[0]) == kind):
                    cnt(c, "grey:login-reply-without-session")
                    continue
                cnt(c, "probe:login-frame-repeated")
            cnt(c, "judged")
            if len(u) >= 256:
                cnt(c, "probe:frame>=256")
            if kind == "set_name" and any(b > 127 for b in u[80:-4]):
                cnt(c, "probe:non-ascii-name")
            if kind in ("breeze_command", "breeze_update", "runner_stop", "runner_position"):
                cnt(c, "probe:type2-length-recomputed")
            probs = frames.wellformed_problems(u)
            for p in probs:
                clause = p if len(p) < 20 else "too-short"
                v.append(("C01/%s/%s/%s" % (clause, kind, size_class(len(u))),
                          "op %s(%s) wrote a %d-byte %s frame with bad %s: %s" % (
                              op.kind, op.args, len(u), kind, p, u.hex()[:120])))
    return v, c


# ----------------------------------------------------------------------- C02


def classify_hhmm(s: Any) -> str:
    """accepted | reject | grey for a clock string (before knowing the date)."""
    if not isinstance(s, str):
        return "grey"
    if re.fullmatch(r"([01]\d|2[0-3]):[0-5]\d", s):
        return "accepted"
    parts = s.split(":")
    if len(parts) < 2:
        return "reject"                      # "", "13", "1300"
    a, b = parts[0], parts[1]
    if not re.fullmatch(r"\d+", a) or not re.fullmatch(r"\d+", b):
        # signs / spaces / unicode digits are parsed leniently by some strptime paths: not settled
        if re.fullmatch(r"[A-Za-z]*", a) and re.fullmatch(r"[A-Za-z]*", b):
            return "reject"                  # "ab:cd", "12:", ":30"
        return "grey"
    if int(a) > 23 or int(b) > 59:
        if (int(a), int(b)) == (24, 0):
            return "grey"                    # "24:00" can be read as the end of the day
        if len(a) <= 2 and len(b) <= 2:
            return "reject"                  # "25:00", "12:60"
        return "grey"
    return "grey"                            # "1:5", "13:00:59", "013:00"


def name_class(name: str) -> str:
    try:
        nb = len(name.encode("utf-8"))
    except UnicodeEncodeError:
        return "grey"
    nc = len(name)
    if "\x00" in name:
        return "grey"
    if nb > 32:
        return "reject"
    if nc >= 2:
        return "accepted"
    return "reject"          # fewer than two characters is "too short", whatever its encoded size


def floor_minute_seconds(s) -> int:
    return int(s // 60) * 60


def expected_args(cl, op, run) -> Tuple[str, Optional[List[Dict[str, Any]]]]:
    """(class, list of acceptable reference-argument dicts).  class: accepted|reject|grey|skip."""
    a = op.args
    dev = {"device_id": bytes.fromhex(cl.cfg["id"])}
    k = op.kind
    if k in ("get_state", "get_schedules", "stop", "get_shutter_state", "get_breeze_state"):
        return "accepted", [dev]
    if k == "control_device":
        m = a.get("minutes", 0)
        if not isinstance(m, int) or m < 0:
            return "grey", None
        if m > MAX_MINUTES:
            return "reject", None
        return "accepted", [dict(dev, on=1 if a["command"] == "ON" else 0, timer=60 * m)]
    if k == "set_auto_shutdown":
        s = floor_minute_seconds(a["seconds"])
        if 86340 < a["seconds"] < 86400:
            return "grey", None                  # 23:59:01..23:59:59: inside by flooring, outside by "<= 23h59m"
        if 3600 <= s <= 86340:
            return "accepted", [dict(dev, seconds=s)]
        return "reject", None
    if k == "set_device_name":
        nc = name_class(a["name"])
        if nc != "accepted":
            return nc, None
        nb = a["name"].encode("utf-8")
        return "accepted", [dict(dev, name32=nb + b"\x00" * (32 - len(nb)))]
    if k == "delete_schedule":
        if isinstance(a["slot"], str) and re.fullmatch(r"[0-7]", a["slot"]):
            return "accepted", [dict(dev, slot=int(a["slot"]))]
        return "grey", None
    if k == "set_position":
        p = a["position"]
        if isinstance(p, int) and 0 <= p <= 100:
            return "accepted", [dict(dev, position=p)]
        return "grey", None
    if k == "create_schedule":
        d = a.get("days")
        if d is None or not d["names"]:
            mask = 0
        else:
            if d.get("form") == "single":
                return "grey", None
            names = d["names"]
            if len(set(names)) != len(names):
                return "reject", None
            mask = sum(DAY_BITS[n] for n in names)
        cs, ce = classify_hhmm(a["start"]), classify_hhmm(a["end"])
        if "reject" in (cs, ce):
            return "reject", None
        if "grey" in (cs, ce):
            return "grey", None
        zone = scn_zone(run)
        # "today" is the local date at any wall-clock reading taken while the operation ran
        dates = {localtime.local_dt(zone, w).date() for w in (op.walls or [op.wall_lo, op.wall_hi])}
        alts = []
        for date in sorted(dates):
            sh, sm = int(a["start"][:2]), int(a["start"][3:])
            eh, em = int(a["end"][:2]), int(a["end"][3:])
            ss = localtime.epochs_for(zone, date, sh, sm)
            ee = localtime.epochs_for(zone, date, eh, em)
            if not ss or not ee:
                return "grey", None          # a time in today's DST gap: does not exist
            for s in ss:
                for e in ee:
                    if 0 <= s < 2 ** 32 and 0 <= e < 2 ** 32:
                        alts.append(dict(dev, mask=mask, start=s, end=e))
        if not alts:
            return "grey", None
        return "accepted", alts
    return "skip", None


def scn_zone(run) -> str:
    return run.sim.tz or "UTC"


def judge_c02(scn, run) -> Tuple[List[Viol], Dict[str, int]]:
    v: List[Viol] = []
    c: Dict[str, int] = {}
    for cl, op in all_ops(run):
        if op.kind in ("login", "control_breeze_device"):
            continue
        cls, alts = expected_args(cl, op, run)
        cnt(c, "class:" + cls)
        if cls in ("grey", "skip"):
            continue
        lr = login_read(op)
        if cls == "reject":
            cnt(c, "probe:must-reject:" + op.kind)
            if op.outcome[0] != "exc":
                v.append(("C02/must-reject-accepted/%s" % op.kind,
                          "%s(%s) is outside the accepted domain but returned normally" % (op.kind, op.args)))
            if len(op.units) > 1:
                v.append(("C02/must-reject-frame-written/%s" % op.kind,
                          "%s(%s) is outside the accepted domain but a command frame was written: %s" % (
                              op.kind, op.args, op.units[1].hex()[:100])))
            continue
        # accepted
        if lr is None or len(lr) < 12:
            cnt(c, "grey:login-reply-without-session")
            continue
        if any(ex.mode not in ("ok",) for ex in op.exchanges[:1]):
            cnt(c, "grey:faulty-login")
            continue
        cnt(c, "probe:op:" + op.kind)
        if len(op.units) < 2:
            if op.outcome[0] == "exc" and "TimeoutError" in op.outcome[3]:
                cnt(c, "grey:library-timeout")
            elif op.outcome[0] == "exc":
                v.append(("C02/accepted-raised/%s/%s" % (op.kind, op.outcome[1]),
                          "%s(%s) is inside the accepted domain but raised %s: %s" % (
                              op.kind, op.args, op.outcome[1], op.outcome[2])))
            else:
                v.append(("C02/no-command-frame/%s" % op.kind, "%s(%s) wrote no command frame" % (op.kind, op.args)))
            continue
        u = op.units[1]
        kind = CMD_KIND[op.kind]
        session = lr[8:12]
        best = None
        for alt in alts:
            exp, fmap = frames.build(kind, session, 0, alt)
            diffs = diff_fields(u, exp, fmap)
            if not diffs:
                best = None
                break
            if best is None or len(diffs) < len(best):
                best = diffs
        else:
            pass
        if best:
            sub = arg_class(op)
            v.append(("C02/frame-mismatch/%s/%s%s" % (op.kind, "+".join(best[:3]), sub),
                      "%s(%s): frame differs from the reference layout in %s; wrote %s" % (
                          op.kind, op.args, best, u.hex())))
        cnt(c, "judged")
    return v, c


def arg_class(op) -> str:
    if op.kind == "set_device_name":
        n = op.args["name"]
        return "/non-ascii" if len(n.encode("utf-8")) != len(n) else "/ascii"
    return ""


def diff_fields(unit: bytes, exp: bytes, fmap, ignore=("timestamp",)) -> List[str]:
    got = unit[:-4]
    out: List[str] = []
    m = min(len(got), len(exp))
    for s, e, name in fmap:
        if name in ignore:
            continue
        if got[s:e] != exp[s:e]:
            label = name if name != "fixed" else "fixed@%d" % s
            if label not in out:
                out.append(label)
    if len(got) != len(exp) and "frame-length" not in out:
        out.append("frame-length")
    # put semantic fields first, structural ones last
    order = {"length": 8, "frame-length": 9}
    out.sort(key=lambda n: order.get(n, 5 if n.startswith("fixed") else 0))
    return out


# ----------------------------------------------------------------------- C03


def expected_sequence_ok(op, kinds: List[str], type_: int) -> Optional[str]:
    """None if the sequence of frame kinds is admissible for this operation, else why not."""
    login = "login1" if type_ == 1 else "login2"
    returned = op.outcome[0] == "ok"
    if op.kind == "login":
        exp = [login]
    elif op.kind == "control_breeze_device":
        s = ",".join(kinds)
        full = r"login2(,get_state2,(breeze_command|breeze_update))?(,breeze_command)?"
        if returned:
            if not re.fullmatch(full, s) or not (2 <= len(kinds) <= 4):
                return "thermostat control returned normally after frames [%s]" % s
            return None
        prefixes = r"(login2(,get_state2(,(breeze_command|breeze_update)(,breeze_command)?)?)?|login2,breeze_command)?"
        if not re.fullmatch(prefixes, s):
            return "thermostat control wrote frames [%s]" % s
        return None
    else:
        exp = [login, CMD_KIND[op.kind]]
    unsuccessful = returned and isinstance(op.outcome[1], dict) and op.outcome[1].get("successful") is False
    if returned and not unsuccessful:
        if kinds != exp:
            return "returned normally after frames %s, protocol says %s" % (kinds, exp)
    else:
        if kinds != exp[: len(kinds)]:
            return "wrote frames %s, protocol says a prefix of %s" % (kinds, exp)
    return None


def judge_c03(scn, run) -> Tuple[List[Viol], Dict[str, int]]:
    v: List[Viol] = []
    c: Dict[str, int] = {}
    seen_sessions: Dict[bytes, Tuple[int, Any]] = {}
    for cl, op in all_ops(run):
        type_ = cl.cfg["type"]
        devid = bytes.fromhex(cl.cfg["id"])
        key = bytes.fromhex(cl.cfg["key"])
        kinds = [frames.classify(u) for u in op.units]
        lr = login_read(op)
        faulty = any(ex.mode != "ok" for ex in op.exchanges)
        if op.outcome[0] == "ok" and op.outcome[1] == "unavailable":
            continue
        if not op.units:
            if op.outcome[0] == "exc":
                cnt(c, "grey:raised-before-any-io")     # e.g. arguments validated before logging in
            else:
                v.append(("C03/no-login-frame/%s" % op.kind, "%s returned normally but wrote nothing" % op.kind))
            continue
        cnt(c, "judged-ops")
        # 1. first frame is this API type's login frame with key / id
        if type_ == 1:
            exp, fmap = frames.build("login1", b"\x00" * 4, 0, {"key": key})
        else:
            exp, fmap = frames.build("login2", b"\x00" * 4, 0, {"device_id": devid})
        d = diff_fields(op.units[0], exp, fmap)
        if d:
            v.append(("C03/login-frame/%s/%s" % (op.kind, "+".join(d[:3])),
                      "%s on a type-%d api: first frame is not the login frame (differs in %s): %s" % (
                          op.kind, type_, d, op.units[0].hex())))
        # 2. number and order of frames (frame kinds are only recognisable when the session field is whole)
        if len(op.units) == 1 or (lr is not None and len(lr) >= 12):
            why = expected_sequence_ok(op, kinds, type_)
            if why:
                v.append(("C03/frame-sequence/%s" % op.kind, "%s(%s): %s" % (op.kind, op.args, why)))
        # 3. every frame: timestamp current; later frames: session of this login, configured id
        lo = int(op.wall_lo) - 1
        hi = int(op.wall_hi) + 2
        for i, u in enumerate(op.units):
            if len(u) < 44:
                continue
            if i > 0 and (lr is None or len(lr) < 12):
                # no session in this login reply: the frame layout is not judged, but it must not be bound to a
                # session some EARLIER login handed out (that would be a leak between operations)
                cnt(c, "grey:login-reply-without-session")
                whose = seen_sessions.get(bytes(u[8:12]))
                if lr is not None and bytes(u[8:12]) == (bytes(lr[8:12]) + b"\x00" * 4)[:4]:
                    whose = None          # this login's own (short) session, zero-padded
                # (only when the header is intact - terminator where it belongs - i.e. a whole 4-byte session was
                # put in; with the short session of the unchanged code every later byte is shifted)
                if whose is not None and u[38:40] == b"\xf0\xfe" and (whose[0] != cl.idx or whose[1] != op.uid):
                    v.append(("C03/stale-session-after-short-login/%s" % op.kind,
                              "%s: this operation's login reply had only %d bytes, yet frame %d carries session %s "
                              "that was issued to client %d op %s" % (op.kind, len(lr or b""), i, u[8:12].hex(), whose[0], whose[1])))
                continue
            ts = struct.unpack("<I", u[24:28])[0]
            if not (lo <= ts <= hi):
                v.append(("C03/stale-timestamp/%s/frame%d" % (op.kind, min(i, 1)),
                          "%s frame %d carries timestamp %d, wall clock during the operation was %d..%d" % (
                              op.kind, i, ts, lo + 1, hi - 1)))
            if i == 0:
                continue
            cnt(c, "judged-command-frames")
            if u[8:12] != lr[8:12]:
                whose = seen_sessions.get(bytes(u[8:12]))
                v.append(("C03/foreign-session/%s" % op.kind,
                          "%s frame %d carries session %s, this operation's login reply said %s%s" % (
                              op.kind, i, u[8:12].hex(), lr[8:12].hex(),
                              " (that session was issued to client %d op %s)" % whose if whose else "")))
            if u[40:43] != devid:
                v.append(("C03/foreign-device-id/%s" % op.kind,
                          "%s frame %d carries device id %s, configured %s" % (op.kind, i, u[40:43].hex(), devid.hex())))
        if lr is not None and len(lr) >= 12 and op.exchanges and op.exchanges[0].kind in ("login1", "login2") \
                and op.exchanges[0].mode == "ok" and op.exchanges[0].sent == lr:
            # (only what an intact login exchange handed out counts as "a session issued to ...")
            seen_sessions[bytes(lr[8:12])] = (cl.idx, op.uid)
        if len(run.clients) > 1:
            cnt(c, "probe:two-instances")
    # interleaving probe: did the two clients' exchanges overlap in time?
    if len(run.clients) > 1:
        spans = [[(op.seq0, op.seq1) for op in cl.ops if op.kind not in LIFECYCLE] for cl in run.clients]
        if any(a0 < b1 and b0 < a1 for a0, a1 in spans[0] for b0, b1 in spans[1]):
            cnt(c, "probe:overlapping-operations")
    return v, c


# ----------------------------------------------------------------------- C08


def amps_ok(amps: Any, watts: int) -> bool:
    return isinstance(amps, (int, float)) and not isinstance(amps, bool) and abs(amps - watts / 220.0) <= 0.05 + 1e-9 \
        and abs(amps * 10 - round(amps * 10)) < 1e-6


def judge_c08(scn, run) -> Tuple[List[Viol], Dict[str, int]]:
    v: List[Viol] = []
    c: Dict[str, int] = {}
    for cl, op in all_ops(run):
        if op.kind not in STATE_QUERIES + ("login",):
            continue
        rpw = reads_per_write(op)
        if any(ex.mode != "ok" for ex in op.exchanges) or len(op.exchanges) != len(rpw):
            cnt(c, "grey:faulty-reply")
            continue
        if any(ex.sent != rd for ex, rd in zip(op.exchanges, rpw)):
            cnt(c, "grey:reply-not-read-whole")
            continue
        if op.outcome[0] == "ok" and op.outcome[1] == "unavailable":
            continue
        cnt(c, "judged")
        if op.outcome[0] != "ok":
            v.append(("C08/raised/%s/%s" % (op.kind, op.outcome[1]),
                      "%s raised %s(%s) on a well-formed reply" % (op.kind, op.outcome[1], op.outcome[2])))
            continue
        r = op.outcome[1]
        if op.kind == "login":
            want = op.exchanges[0].sent[8:12].hex()
            if r.get("session_id") != want:
                v.append(("C08/login-session", "login reply session %s parsed as %r" % (want, r.get("session_id"))))
            continue
        snap = op.exchanges[-1].snapshot if op.exchanges else None
        if snap is None:
            cnt(c, "grey:no-state-exchange")       # the reply the caller read was not produced for this operation
            continue
        exp: Dict[str, Any] = {}
        if op.kind == "get_state":
            exp = {"cls": "SwitcherStateResponse", "state": "ON" if snap["on"] else "OFF",
                   "time_left": codecs.hms(snap["time_left"]), "time_on": codecs.hms(snap["time_on"]),
                   "auto_shutdown": codecs.hms(snap["auto_off"]), "power_consumption": snap["watts"]}
            if not amps_ok(r.get("electric_current"), snap["watts"]):
                v.append(("C08/field/get_state/electric_current",
                          "watts %d reported as %r amps" % (snap["watts"], r.get("electric_current"))))
        elif op.kind == "get_shutter_state":
            exp = {"cls": "SwitcherShutterStateResponse", "position": snap["position"],
                   "direction": codecs.DIRECTIONS[snap["direction"]]}
        else:
            exp = {"cls": "SwitcherThermostatStateResponse", "state": "ON" if snap["on"] else "OFF",
                   "mode": codecs.MODES[snap["mode"]], "fan_level": codecs.FANS[snap["fan"]],
                   "swing": "ON" if snap["swing"] else "OFF", "temperature": snap["temp10"] / 10,
                   "target_temperature": snap["target"], "remote_id": snap["remote"]}
        for k, want in exp.items():
            if r.get(k) != want:
                v.append(("C08/field/%s/%s" % (op.kind, k),
                          "%s: device reported %s=%r, response says %r (device state %s)" % (
                              op.kind, k, want, r.get(k), snap)))
        want_s = op.exchanges[0].sent[8:12]
        if len(op.units) > 1 and op.units[1][8:12] != want_s:
            pass  # C03's business
    return v, c


# ----------------------------------------------------------------------- C09

RESP_CLASS = {"get_state": "SwitcherStateResponse", "get_shutter_state": "SwitcherShutterStateResponse",
              "get_breeze_state": "SwitcherThermostatStateResponse"}
TYPE2_OPS = ("stop", "set_position", "get_shutter_state", "get_breeze_state", "control_breeze_device")


def judge_c09(scn, run) -> Tuple[List[Viol], Dict[str, int]]:
    v: List[Viol] = []
    c: Dict[str, int] = {}
    if run.deadlock:
        ops = [op for cl in run.clients for op in cl.ops if op.outcome is None]
        silent = any(ex.mode == "silent" for cl in run.clients for op in cl.ops for ex in op.exchanges)
        if not silent:
            v.append(("C09/hang/%s" % (ops[0].kind if ops else "?"),
                      "the client stopped making progress although the device had answered every frame"))
    # per connection: had everything the device sent before an operation started been read before it started?
    clean_start: Dict[int, bool] = {}
    for cl in run.clients:
        sent_total: Dict[Any, int] = {}
        read_total: Dict[Any, int] = {}
        for op in cl.ops:
            cid = getattr(op, "conn_cid", None)
            clean_start[id(op)] = cid is not None and sent_total.get(cid, 0) == read_total.get(cid, 0)
            if cid is not None:
                sent_total[cid] = sent_total.get(cid, 0) + sum(len(ex.sent) for ex in op.exchanges)
                read_total[cid] = read_total.get(cid, 0) + sum(len(r) for r in op.app_reads)
    for cl, op in all_ops(run):
        if op.outcome is None or op.kind == "login":
            continue
        modes = [ex.mode for ex in op.exchanges]
        for m in modes:
            cnt(c, "reply:" + m)
        if "rst" in modes or "silent" in modes:
            cnt(c, "grey:not-bytes")
            continue
        lr = login_read(op)
        final = final_reply(op)
        if op.kind in STATE_QUERIES:
            cnt(c, "judged-state-query")
            if op.outcome[0] == "ok":
                if op.outcome[1].get("cls") != RESP_CLASS[op.kind]:
                    v.append(("C09/wrong-class/%s" % op.kind, "%s returned %r" % (op.kind, op.outcome[1])))
            elif not is_runtime_error(op.outcome):
                v.append(("C09/escaped-exception/%s/%s" % (op.kind, op.outcome[1]),
                          "%s raised %s(%s) after replies %s" % (
                              op.kind, op.outcome[1], op.outcome[2], [r.hex()[:60] for r in op.app_reads])))
        elif op.outcome[0] == "ok" and isinstance(op.outcome[1], dict) and "successful" in op.outcome[1]:
            cnt(c, "judged-generic")
            nonempty = final is not None and len(final) > 0
            if bool(op.outcome[1]["successful"]) != nonempty:
                v.append(("C09/success-flag/%s/%s" % (op.kind, "empty" if not nonempty else "nonempty"),
                          "%s reported successful=%s but the final reply read was %d bytes" % (
                              op.kind, op.outcome[1]["successful"], len(final or b""))))
            # ... and "the reply" is what the device returned to the last frame, not whatever happened to be left in
            # a buffer: judged when every reply of the exchange arrived in one piece and within the 1024 bytes the
            # statement quantifies over (a reply cut into segments, or longer, may legitimately spill into the next read)
            exs = op.exchanges
            if exs and clean_start.get(id(op)) and len(exs) == len(op.units) and len(op.app_reads) <= len(exs) and all(
                    ex.mode in ("ok", "eof", "truncate", "garbage", "corrupt", "extra", "dead") and len(ex.sent) <= 1024
                    for ex in exs):
                cnt(c, "judged-generic-device-side")
                dev_nonempty = len(exs[-1].sent) > 0
                if bool(op.outcome[1]["successful"]) != dev_nonempty and nonempty != dev_nonempty:
                    v.append(("C09/success-flag-vs-device/%s/%s" % (op.kind, "empty" if not dev_nonempty else "nonempty"),
                              "%s reported successful=%s but the device returned %d bytes to its last frame (replies sent: %s, "
                              "read: %s)" % (op.kind, op.outcome[1]["successful"], len(exs[-1].sent),
                                             [len(ex.sent) for ex in exs], [len(r) for r in op.app_reads])))
        else:
            cnt(c, "grey:generic-raised")
        if lr is not None and len(lr) == 0 and (op.kind in STATE_QUERIES or op.kind in TYPE2_OPS):
            cnt(c, "judged-empty-login")
            if not is_runtime_error(op.outcome):
                v.append(("C09/empty-login-not-refused/%s" % op.kind,
                          "login reply was empty but %s ended with %r" % (op.kind, op.outcome[:2])))
            if len(op.units) > 1:
                v.append(("C09/frame-after-empty-login/%s" % op.kind,
                          "login reply was empty but %s went on to write %s" % (op.kind, op.units[1].hex()[:80])))
    return v, c


# ----------------------------------------------------------------------- C18


def judge_c18(scn, run) -> Tuple[List[Viol], Dict[str, int]]:
    v: List[Viol] = []
    c: Dict[str, int] = {}
    for cl in run.clients:
        model = False
        n_conn = 0
        cnt(c, "probe:flag-samples", cl.flag_samples)
        for bad in cl.flag_without_socket[:1]:
            v.append(("C18/connected-without-socket/%s" % (bad["during"] or "idle"),
                      "at event %d (during %s) connected is True but the client holds no established open socket" % (
                          bad["seq"], bad["during"])))
        for op in cl.ops:
            k = op.kind
            st = [s for s in scn["steps"] if s.get("uid") == op.uid]
            refused = bool(st and st[0].get("connect") == "refuse")
            cnt(c, "judged-actions")
            if k in ("connect", "aenter"):
                if refused:
                    cnt(c, "probe:refused-connect")
                    if op.outcome[0] != "exc":
                        v.append(("C18/refused-connect-not-raised", "refused %s ended with %r" % (k, op.outcome[:2])))
                else:
                    if op.outcome[0] != "ok":
                        v.append(("C18/connect-failed/%s" % op.outcome[1],
                                  "%s to a listening device raised %s(%s)" % (k, op.outcome[1], op.outcome[2])))
                    else:
                        model = True
                        n_conn += 1
                        if n_conn > 1:
                            cnt(c, "probe:reconnect")
                        open_conns = [s for s in op.extra.get("socks", []) if not s[1] and s[2] is not None]
                        if len(open_conns) != 1:
                            v.append(("C18/connect-no-new-connection",
                                      "after %s the client holds %d open connections" % (k, len(open_conns))))
            elif k in ("disconnect", "aexit"):
                if not model:
                    cnt(c, "probe:disconnect-while-disconnected")
                if k == "aexit" and st and st[0].get("exc"):
                    cnt(c, "probe:body-exception")
                    cnt(c, "probe:body-exception/%s" % st[0].get("exc_kind", "plain"))
                if op.outcome[0] != "ok":
                    why = "after-peer-reset" if any(cn.rx_rst for cn in cl.conns) else "plain"
                    v.append(("C18/disconnect-raised/%s/%s" % (op.outcome[1], why),
                              "%s raised %s(%s)" % (k, op.outcome[1], op.outcome[2])))
                model = False
                for fd, closed, cid, fin in op.extra.get("socks", []):
                    if not closed:
                        v.append(("C18/socket-left-open", "after %s socket fd%d is still open" % (k, fd - 100000)))
                    elif cid is not None and not fin:
                        v.append(("C18/no-end-of-stream", "after %s the device never saw end-of-stream" % k))
            else:
                if op.outcome is not None and op.outcome[0] == "exc":
                    cnt(c, "probe:op-raised")
            want = model
            got = op.extra.get("connected_settled", op.connected_after)
            if op.connected_after != want or got != want:
                why = ""
                if k in ("disconnect", "aexit") and any(cn.rx_rst for cn in cl.conns):
                    why = "/after-peer-reset"
                v.append(("C18/connected-flag/%s/%s%s" % (k, "stuck-true" if not want else "false", why),
                          "after %s (%s) connected is %s, should be %s" % (k, op.outcome[:2], op.connected_after, want)))
    return v, c


# ----------------------------------------------------------------------- C16


def judge_c16(scn, run) -> Tuple[List[Viol], Dict[str, int]]:
    v: List[Viol] = []
    c: Dict[str, int] = {}
    for cl, op in all_ops(run):
        if op.kind != "control_breeze_device" or op.outcome is None:
            continue
        a = op.args
        irset = cl.irset
        cap = irsets.capabilities(irset)
        special, toggle = cap["special"], cap["toggle"]
        upd = bool(a.get("update_state"))
        modes = [ex.mode for ex in op.exchanges]
        kinds = [frames.classify(u) for u in op.units]
        req = {k: a.get(k) for k in ("state", "mode", "target", "fan", "swing")}
        given = {k for k, x in req.items() if x is not None and x != 0}
        main = bool(given - {"swing"}) or ("swing" in given and not special)
        swing_cmd = special and "swing" in given and not upd
        cnt(c, "probe:remote:%s%s" % ("toggle" if toggle else "plain", "+sepswing" if special else ""))
        cnt(c, "probe:subset-size-%d" % len(given))
        if upd:
            cnt(c, "probe:update-only")
        # ---- fault clause: an empty reply anywhere => RuntimeError or unsuccessful response
        rpw = reads_per_write(op)
        if "eof" not in modes and b"" in rpw:
            # the application read an empty reply although the device sent none such (its own transport was already
            # closed, say): the same clause applies to what it read
            cnt(c, "judged-empty-read-step-%d" % (rpw.index(b"") + 1))
            if not (is_runtime_error(op.outcome) or op.outcome[0] == "ok" and op.outcome[1].get("successful") is False):
                v.append(("C16/success-after-empty-reply/read%d" % (rpw.index(b"") + 1),
                          "read %d was empty but control_breeze_device(%s) ended with %r" % (rpw.index(b"") + 1, a, op.outcome[:2])))
            continue
        if "eof" in modes:
            cnt(c, "judged-eof-step-%d" % (modes.index("eof") + 1))
            ok = is_runtime_error(op.outcome) or \
                op.outcome[0] == "ok" and op.outcome[1].get("successful") is False
            if not ok:
                v.append(("C16/success-after-empty-reply/step%d" % (modes.index("eof") + 1),
                          "reply %d was empty but control_breeze_device(%s) ended with %r" % (
                              modes.index("eof") + 1, a, op.outcome[:2])))
            continue
        if any(m != "ok" for m in modes):
            cnt(c, "grey:other-fault")
            continue
        # ---- nothing actionable
        if not main and not swing_cmd:
            if special and "swing" in given and upd:
                # swing-only in update-only mode on a separate-swing remote: sending the status frame and refusing
                # are both readings of the statement
                cnt(c, "grey:update-only-swing-on-separate-swing-remote")
                continue
            cnt(c, "judged-nothing-actionable")
            if not is_runtime_error(op.outcome):
                v.append(("C16/nothing-actionable-not-refused", "control_breeze_device(%s) ended with %r" % (a, op.outcome[:2])))
            continue
        text_main = None
        verdict = "code"
        merged = None
        snap = None
        after = list(zip(kinds[1:], op.units[1:]))
        had_query = bool(after and after[0][0] == "get_state2")
        if had_query:
            after = after[1:]
            for ex in op.exchanges:
                if ex.kind == "get_state2":
                    snap = ex.snapshot
                    break
        if main:
            # what would have to be inherited from the device: any omitted setting (swing does not enter the key of a
            # separate-swing remote), and for a toggle remote the previous power state when an IR code is chosen
            needed = {"state", "mode", "target", "fan"} | (set() if special and not upd else {"swing"})
            all_given = needed <= given
            if snap is None:
                if (toggle and not upd) or not all_given:
                    # an omitted setting (or, for a toggle remote, the previous power state) can only come from the device
                    v.append(("C16/no-state-query", "control_breeze_device(%s) did not ask the device for its state; frames %s" % (a, kinds)))
                    continue
                cnt(c, "probe:all-settings-given-no-query")
            merged = {
                "on": (a["state"] == "ON") if a.get("state") else snap["on"],
                "mode": MODE_NUM[a["mode"]] if a.get("mode") else snap["mode"],
                "target": a["target"] if a.get("target") else snap["target"],
                "fan": FAN_NUM[a["fan"]] if a.get("fan") else snap["fan"],
                "swing": (a["swing"] == "ON") if a.get("swing") else (bool(snap["swing"]) if snap else False),
            }
            if not upd:
                key_swing = False if special else merged["swing"]
                verdict, text_main = irsets.ref_lookup(irset, merged["on"], merged["mode"], merged["target"],
                                                       merged["fan"], key_swing, snap["on"] if snap else None)
        if main and not a.get("target") and snap is not None and not 16 <= snap["target"] <= 30:
            cnt(c, "grey:inherited-target-out-of-range")     # the statement covers current states with targets 16..30
            continue
        if verdict == "grey":
            cnt(c, "grey:no-key-in-set")
            continue
        if verdict == "bad-mode":
            cnt(c, "grey:mode-not-in-remote")        # refusing it is C15's clause; C16 says nothing about it
            continue
        text_swing = None
        if swing_cmd:
            sv, text_swing = irsets.ref_swing(irset, a["swing"] == "ON")
            if sv == "grey":
                cnt(c, "grey:no-swing-key")
                continue
        cnt(c, "judged")
        lr = login_read(op)
        session = lr[8:12] if lr is not None and len(lr) >= 12 else b"\x00" * 4
        dev = {"device_id": bytes.fromhex(cl.cfg["id"])}
        if had_query:
            exp, fmap = frames.build("get_state2", session, 0, dev)
            d = diff_fields(op.units[1], exp, fmap, ignore=("timestamp",))
            if d:
                v.append(("C16/state-query-frame/%s" % "+".join(d[:3]),
                          "the state query sent before the command differs from the protocol layout in %s: %s" % (d, op.units[1].hex())))
        # the command frames this call must send (their mutual order is not part of the statement)
        want: List[Tuple[str, str, Any]] = []
        if main and upd:
            alts = [dict(dev, state=1 if merged["on"] else 0, mode=merged["mode"], target=merged["target"] & 0xFF,
                         fan=merged["fan"], swing=sw) for sw in (
                             # a separate-swing remote: the requested value, what the device reported, or excluded (0)
                             sorted({1 if merged["swing"] else 0, 0} | ({1 if snap["swing"] else 0} if snap else set()))
                             if special else [1 if merged["swing"] else 0])]
            want.append(("status", "breeze_update", alts))
        elif main:
            if 87 + len(text_main) + 4 >= 256:
                cnt(c, "probe:ir-frame>=256")
            if 4 + len(text_main) < 16:
                cnt(c, "probe:ir-payload<16")
            want.append(("command", "breeze_command", [dict(dev, text=text_main.encode())]))
        if swing_cmd:
            want.append(("swing", "breeze_command", [dict(dev, text=text_swing.encode())]))
        if sorted(k for k, _ in after) != sorted(k for _, k, _ in want) or kinds[:1] != ["login2"]:
            v.append(("C16/frame-sequence/%s" % ("update" if upd else "command"),
                      "control_breeze_device(%s) on a %s remote wrote %s, expected login2%s + %s" % (
                          a, cap, kinds, ", get_state2" if had_query else "", [k for _, k, _ in want])))
            continue
        if op.outcome[0] != "ok" or not op.outcome[1].get("successful"):
            v.append(("C16/failed-without-fault", "control_breeze_device(%s) ended with %r although every reply was fine" % (a, op.outcome[:2])))
            continue

        def frame_diffs(unit, kind, alts):
            best = None
            for alt in alts:
                exp, fmap = frames.build(kind, session, 0, alt)
                d = diff_fields(unit, exp, fmap, ignore=("timestamp", "length"))
                if not d:
                    return []
                if best is None or len(d) < len(best):
                    best = d
            return best

        orders = [list(range(len(want)))]
        if len(want) == 2 and want[0][1] == want[1][1]:
            orders.append([1, 0])
        found = None
        for order in orders:
            diffs = [(want[w][0], frame_diffs(after[pos][1], want[w][1], want[w][2]), after[pos][1], want[w]) for pos, w in enumerate(order)]
            if all(not d for _, d, _, _ in diffs):
                found = []
                break
            if found is None:
                found = diffs
        for role, d, unit, w in found or []:
            if not d:
                continue
            if role == "status":
                v.append(("C16/status-frame/%s" % "+".join(d[:3]),
                          "update-only control(%s) with device state %s: status frame differs in %s: %s" % (a, snap, d, unit.hex())))
            else:
                text = w[2][0]["text"].decode()
                which = "ir_length/%s" % size_class(4 + len(text)) if d == ["ir_length"] else "+".join(d[:3])
                v.append(("C16/%s-frame/%s" % (role, which),
                          "control(%s) with device state %s (merged %s): %s frame differs in %s; expected code %r, frame %s" % (
                              a, snap, merged, role, d, text[:60], unit.hex()[:260])))
    return v, c


# ----------------------------------------------------------------------- C10


def judge_c10(scn, run) -> Tuple[List[Viol], Dict[str, int]]:
    v: List[Viol] = []
    c: Dict[str, int] = {}
    zone = scn_zone(run)
    created: Dict[int, List[dict]] = {}
    for cl, op in all_ops(run):
        if op.kind == "create_schedule" and op.outcome and op.outcome[0] == "ok" and len(op.units) > 1 \
                and all(ex.mode == "ok" for ex in op.exchanges):
            cls, _ = expected_args(cl, op, run)
            if cls == "accepted":
                u = op.units[1]
                if len(u) >= 95:
                    created.setdefault(cl.idx, []).append(
                        {"args": op.args, "rec": (u[85], u[87:91], u[91:95]), "wall": (op.wall_lo, op.wall_hi)})
        if op.kind != "get_schedules" or op.outcome is None:
            continue
        rpw = reads_per_write(op)
        if len(op.exchanges) == 2 and op.exchanges[0].mode == "ok" and op.exchanges[1].mode == "eof" \
                and len(rpw) == 2 and rpw[1] == b"":
            # "an empty reply yields no schedules": whatever is returned must hold none
            cnt(c, "judged-empty-reply")
            if op.outcome[0] == "ok":
                if op.outcome[1].get("schedules") or op.outcome[1].get("n_schedules"):
                    v.append(("C10/schedules-from-empty-reply", "an empty reply to get_schedules yielded %r" % (op.outcome[1],)))
            else:
                cnt(c, "grey:empty-reply-raised")      # C10 does not say which error, if any, a hang-up may raise
            continue
        if any(ex.mode != "ok" for ex in op.exchanges) or len(op.exchanges) < 2 or len(rpw) < 2 \
                or rpw[-1] != op.exchanges[-1].sent:
            cnt(c, "grey:faulty-reply")
            continue
        recs = [bytes.fromhex(r) for r in op.exchanges[-1].snapshot["records"]]
        cnt(c, "judged-lists")
        cnt(c, "probe:records-%d" % len(recs))
        if op.outcome[0] != "ok":
            mine = [cr for cr in created.get(cl.idx, []) for r in recs if (r[2], r[4:8], r[8:12]) == cr["rec"]]
            if mine:
                a = mine[0]["args"]
                v.append(("C10/read-back-raised/%s" % op.outcome[1],
                          "the record create_schedule emitted for (%s,%s,%s) makes the listing raise %s(%s) when a device lists it back" % (
                              a["start"], a["end"], a.get("days"), op.outcome[1], op.outcome[2])))
                continue
            if any(r[2] & 1 for r in recs):
                cnt(c, "grey:mask-bit0")
                continue
            v.append(("C10/list-raised/%s" % op.outcome[1],
                      "get_schedules raised %s(%s) on records %s" % (op.outcome[1], op.outcome[2], [r.hex() for r in recs])))
            continue
        got = {s["schedule_id"]: s for s in op.outcome[1]["schedules"]}
        if op.outcome[1]["n_schedules"] != len(got):
            v.append(("C10/duplicate-ids-in-set", "parsed set holds two schedules with one id"))
        ids: Dict[str, List[bytes]] = {}
        for r in recs:
            ids.setdefault(str(r[0]), []).append(r)
        if set(got) != set(ids):
            v.append(("C10/slot-ids", "device listed slots %s, parsed %s" % (sorted(ids), sorted(got))))
            continue
        if not recs:
            cnt(c, "probe:empty-list")
        for sid, rl in ids.items():
            if len(rl) > 1:
                cnt(c, "grey:duplicate-slot")
                continue
            r = rl[0]
            mask = r[2]
            if mask & 1:
                cnt(c, "grey:mask-bit0")
                continue
            s = got[sid]
            start, end = struct.unpack("<II", r[4:12])
            exp = {"recurring": mask != 0,
                   "days": sorted(n for n, b in DAY_BITS.items() if mask & b),
                   "start_time": localtime.hhmm(zone, start), "end_time": localtime.hhmm(zone, end)}
            sm = int(exp["start_time"][:2]) * 60 + int(exp["start_time"][3:])
            em = int(exp["end_time"][:2]) * 60 + int(exp["end_time"][3:])
            dur = (em - sm) % 1440
            exp["duration"] = "%d:%02d:00" % (dur // 60, dur % 60)
            cnt(c, "judged-records")
            for k, want in exp.items():
                if s.get(k) != want:
                    v.append(("C10/record-field/%s" % k,
                              "record %s in zone %s: %s should be %r, parsed %r" % (r.hex(), zone, k, want, s.get(k))))
            # read-back of records this client created earlier in the run
            for cr in created.get(cl.idx, []):
                if (r[2], r[4:8], r[8:12]) == cr["rec"]:
                    cnt(c, "judged-readback")
                    a = cr["args"]
                    want_days = sorted(set(a["days"]["names"])) if a.get("days") else []
                    if s["start_time"] != a["start"] or s["end_time"] != a["end"] or s["days"] != want_days:
                        # a clock change between create and list that moves the zone's offset is not a defect
                        v.append(("C10/read-back",
                                  "created (%s,%s,%s) in %s, listed back as (%s,%s,%s)" % (
                                      a["start"], a["end"], want_days, zone, s["start_time"], s["end_time"], s["days"])))
    return v, c


JUDGES = {"C01": judge_c01, "C02": judge_c02, "C03": judge_c03, "C08": judge_c08, "C09": judge_c09,
          "C10": judge_c10, "C16": judge_c16, "C18": judge_c18}
