"""Local-time reference built on zoneinfo (a different implementation from libc's
mktime/localtime, same tzdata)."""
from __future__ import annotations

import datetime as dt
from functools import lru_cache
from typing import List
from zoneinfo import ZoneInfo


@lru_cache(maxsize=None)
def zone(name: str) -> ZoneInfo:
    return ZoneInfo(name)


def local_dt(zname: str, epoch: float) -> dt.datetime:
    return dt.datetime.fromtimestamp(epoch, zone(zname))


def hhmm(zname: str, epoch: int) -> str:
    return local_dt(zname, epoch).strftime("%H:%M")


def epochs_for(zname: str, date: dt.date, hh: int, mm: int) -> List[int]:
    """Every epoch second whose local reading in the zone is date hh:mm:00 (0, 1 or 2 values)."""
    z = zone(zname)
    out = []
    for fold in (0, 1):
        naive = dt.datetime(date.year, date.month, date.day, hh, mm, 0)
        aware = naive.replace(tzinfo=z, fold=fold)
        e = int(aware.timestamp())
        back = dt.datetime.fromtimestamp(e, z).replace(tzinfo=None)
        if back == naive and e not in out:
            out.append(e)
    return out


def transitions(zname: str, year_from: int = 2000, year_to: int = 2037) -> List[int]:
    """Epoch seconds at which the zone's UTC offset changes (found by bisection on hourly probes)."""
    z = zone(zname)
    res = []
    start = int(dt.datetime(year_from, 1, 1, tzinfo=dt.timezone.utc).timestamp())
    end = int(dt.datetime(year_to, 12, 31, tzinfo=dt.timezone.utc).timestamp())
    step = 86400 * 7
    t = start
    off = dt.datetime.fromtimestamp(t, z).utcoffset()
    while t < end:
        t2 = min(t + step, end)
        off2 = dt.datetime.fromtimestamp(t2, z).utcoffset()
        if off2 != off:
            lo, hi = t, t2
            while hi - lo > 1:
                mid = (lo + hi) // 2
                if dt.datetime.fromtimestamp(mid, z).utcoffset() == off:
                    lo = mid
                else:
                    hi = mid
            res.append(hi)
            off = off2
        t = t2
    return res
