"""Reference codecs for status broadcasts (UDP) and device replies (TCP).

Offsets were taken from the real captures shipped in tests/testresources (copied
below as carriers).  Unknown bytes are carried over from the carrier.
"""
from __future__ import annotations

import struct
from typing import Any, Dict, List, Optional

from .crc import sign

# ---- carriers (real captures)
CAP_HEATER = bytes.fromhex(
    "fef0a500023c020000000000841201000000aaaaaa0000007ff6c26000000000000000000000f0fe03004d79205377697463686572"
    "20426f696c6572000000000000000000000000000001a7c0a8012112a1a21abc1a000000000000000002537769746368657220426f"
    "696c65722043463842000000000000000000000000020400001c000100280a00004b9589c0000000001815000000000000302a0000"
    "0102aa3461dd")
CAP_PLUG = bytes.fromhex(
    "fef0a500023c020000000000841201000000aaaaaa0000007ff6c26000000000000000000000f0fe03004d79205377697463686572"
    "20426f696c6572000000000000000000000000000001a8c0a8012112a1a21abc1a000000000000000002537769746368657220426f"
    "696c65722043463842000000000000000000000000020400001c000100280a00004b9589c0000000000000000000000000000000000"
    "102aa3461dd")
CAP_BREEZE = bytes.fromhex(
    "fef0a800040002000000000050e0010000003a20b70000009b62966200000000000000000000f0fe0800537769746368657220427265"
    "657a655f353637390000000000000000000000000e0100c0a8324dbcff4d4a567900000700000000030253776974636865725f4272"
    "65657a655f35363739000000000000000000000000020400001e00011901000218000007454c4543373032320000000028000000000000"
    "0002433ded03")
CAP_RUNNER = bytes.fromhex(
    "fef09f000402020000000000120701000000f2239a0000006485966200000000000000000000f0fe060053776974636865722052756e"
    "5f314534320000000000000000000000000000000c0200c0a8326294b97e011e4202020000010000030253776974636865722052756e"
    "5f31453432000000000000000000000000000000020400001500041800000001010000000000000000000000000000ad6b23b9")

assert len(CAP_HEATER) == 165 and len(CAP_PLUG) == 165 and len(CAP_BREEZE) == 168 and len(CAP_RUNNER) == 159

# model code -> (name, family, category)
MODELS = {
    "030f": ("MINI", 1, "heater"),
    "01a8": ("POWER_PLUG", 1, "plug"),
    "030b": ("TOUCH", 1, "heater"),
    "01a7": ("V2_ESP", 1, "heater"),
    "01a1": ("V2_QCA", 1, "heater"),
    "0317": ("V4", 1, "heater"),
    "0e01": ("BREEZE", 2, "breeze"),
    "0c01": ("RUNNER", 2, "runner"),
    "0c02": ("RUNNER_MINI", 2, "runner"),
}
CATEGORY_CLASS = {"heater": "SwitcherWaterHeater", "plug": "SwitcherPowerPlug",
                  "breeze": "SwitcherThermostat", "runner": "SwitcherShutter"}
CATEGORY_LEN = {"heater": 165, "plug": 165, "breeze": 168, "runner": 159}
DIRECTIONS = {"0000": "SHUTTER_STOP", "0100": "SHUTTER_UP", "0001": "SHUTTER_DOWN"}
MODES = {1: "AUTO", 2: "DRY", 3: "FAN", 4: "COOL", 5: "HEAT"}
FANS = {0: "AUTO", 1: "LOW", 2: "MEDIUM", 3: "HIGH"}


def hms(seconds: int) -> str:
    return "%02d:%02d:%02d" % (seconds // 3600, seconds // 60 % 60, seconds % 60)


def ip_str(b: bytes) -> str:
    return ".".join(str(x) for x in b)


def mac_str(b: bytes) -> str:
    return ":".join("%02X" % x for x in b)


# ------------------------------------------------------------------ broadcasts


def encode_broadcast(s: Dict[str, Any]) -> bytes:
    """s: model(hex4), id(hex6), key(hex2), ip(4 ints), mac(6 ints), name(str) + family fields."""
    cat = MODELS[s["model"]][2]
    carrier = {"heater": CAP_HEATER, "plug": CAP_PLUG, "breeze": CAP_BREEZE, "runner": CAP_RUNNER}[cat]
    b = bytearray(carrier)
    b[18:21] = bytes.fromhex(s["id"])
    b[40:41] = bytes.fromhex(s["key"])
    name = s["name"].encode("utf-8")
    assert 1 <= len(name) <= 32
    b[42:74] = name + b"\x00" * (32 - len(name))
    b[74:76] = bytes.fromhex(s["model"])
    if cat in ("heater", "plug"):
        b[76:80] = bytes(s["ip"])
        b[80:86] = bytes(s["mac"])
        b[133] = 1 if s["on"] else 0
        b[135:137] = struct.pack("<H", s["watts"])
        b[147:151] = struct.pack("<I", s["remaining"])
        b[155:159] = struct.pack("<I", s["auto_off"])
    else:
        b[77:81] = bytes(s["ip"])
        b[81:87] = bytes(s["mac"])
        if cat == "runner":
            b[135] = s["position"]
            b[136] = 0
            b[137:139] = bytes.fromhex(s["direction"])
        else:
            b[135:137] = struct.pack("<H", s["temp10"])
            b[137] = 1 if s["on"] else 0
            b[138] = s["mode"]
            b[139] = s["target"]
            b[140] = (s["fan"] << 4) | s["swing"]
            rid = s["remote_id"].encode("ascii")
            assert len(rid) == 8
            b[143:151] = rid
    return bytes(b)


def gate(b: bytes) -> bool:
    return len(b) in (165, 168, 159) and b[0:2] == b"\xfe\xf0"


def decode_broadcast(b: bytes) -> Optional[Dict[str, Any]]:
    """Reference decoding of a well-formed broadcast; None when the gate fails or the model is unknown."""
    if not gate(b):
        return None
    model = b[74:76].hex()
    if model not in MODELS:
        return None
    mname, fam, cat = MODELS[model]
    d: Dict[str, Any] = {"cls": CATEGORY_CLASS[cat], "device_type": mname, "device_id": b[18:21].hex(),
                         "device_key": b[40:41].hex()}
    d["name"] = b[42:74].decode("utf-8").rstrip("\x00")
    if fam == 1:
        d["ip_address"] = ip_str(b[76:80])
        d["mac_address"] = mac_str(b[80:86])
        on = b[133] == 1
        d["device_state"] = "ON" if on else "OFF"
        watts = struct.unpack("<H", b[135:137])[0] if on else 0
        d["power_consumption"] = watts
        d["electric_current_of"] = watts
        if cat == "heater":
            d["remaining_time"] = hms(struct.unpack("<I", b[147:151])[0]) if on else "00:00:00"
            d["auto_shutdown"] = hms(struct.unpack("<I", b[155:159])[0])
    else:
        d["ip_address"] = ip_str(b[77:81])
        d["mac_address"] = mac_str(b[81:87])
        if cat == "runner":
            d["position"] = b[135]
            d["direction"] = DIRECTIONS[b[137:139].hex()]
        else:
            d["device_state"] = "ON" if b[137] == 1 else "OFF"
            d["temperature"] = struct.unpack("<H", b[135:137])[0] / 10
            d["mode"] = MODES[b[138]]
            d["target_temperature"] = b[139]
            d["fan_level"] = FANS[b[140] >> 4]
            d["swing"] = "ON" if (b[140] & 0x0F) != 0 else "OFF"
            d["remote_id"] = b[143:151].decode("ascii")
    return d


def broadcast_in_domain(b: bytes) -> bool:
    """True when every field of a gate-passing, known-model broadcast is inside the domain C05 names
    AND the frame length is the one its family sends."""
    if not gate(b):
        return False
    model = b[74:76].hex()
    if model not in MODELS:
        return False
    _, fam, cat = MODELS[model]
    if len(b) != CATEGORY_LEN[cat]:
        return False
    try:
        name = b[42:74].decode("utf-8")
    except UnicodeDecodeError:
        return False
    stripped = name.rstrip("\x00")
    if not stripped or "\x00" in stripped:
        return False
    if fam == 1:
        if b[133] not in (0, 1):
            return False
        if struct.unpack("<I", b[147:151])[0] > 86399 or struct.unpack("<I", b[155:159])[0] > 86399:
            return False
        return True
    if cat == "runner":
        return b[135] <= 100 and b[136] == 0 and b[137:139].hex() in DIRECTIONS
    if b[137] not in (0, 1) or b[138] not in MODES or (b[140] >> 4) not in FANS or (b[140] & 0x0F) not in (0, 1):
        return False
    rid = b[143:151]
    return all(33 <= c < 127 for c in rid)


# ---------------------------------------------------------------------- replies

REPLY_LOGIN = bytes.fromhex(
    "fef02c000400a60000000000ff03021100000000000000005d65966200000000000000000000f0fe1c8a48fa")
REPLY_STATE1 = bytearray.fromhex(  # the repo's 107-byte dummy type-1 state reply, magic added
    "00000000000000000000000000000000000000000000000000000000000000000000000000000000000000000000000000000000000000"
    "00000000000000000000000000000000000000000000000000005726b9c0000000000000000000000000302a000001024b38af38")
REPLY_STATE1[0:2] = b"\xfe\xf0"
REPLY_STATE1[38:40] = b"\xf0\xfe"
REPLY_STATE1 = bytes(REPLY_STATE1)
REPLY_SHUTTER = bytes.fromhex(
    "fef0640004020103000000003900020000000000000000001489966200000000000000000000f0fe53776974636865722052756e5f31"
    "453432000000000000000000000000000000031500053200000001010000000000000000000000000000db4c3741")
REPLY_BREEZE = bytes.fromhex(
    "fef06d000400010300000000390002000000000000000000c266966200000000000000000000f0fe537769746368657220427265657a"
    "655f35363739000000000000000000000000031e00011901000218000007454c45433730323200000000570000000000000002190044d5")
REPLY_ACK = bytes.fromhex(
    "fef038000402010200000000290402000000000000000000b987966200000000000000000000f0fe01000800180001000101000080dca3c0")
SCHED_HEADER = bytes.fromhex("fef0" + "00" * 43)   # 45 bytes before the records

assert len(REPLY_SHUTTER) == 100 and len(REPLY_BREEZE) == 109, (len(REPLY_SHUTTER), len(REPLY_BREEZE))


def _fix(b: bytearray) -> bytes:
    b[2:4] = struct.pack("<H", len(b))
    return sign(bytes(b[:-4]))


def enc_login(session: bytes) -> bytes:
    b = bytearray(REPLY_LOGIN)
    b[8:12] = session
    return _fix(b)


def enc_ack(session: bytes) -> bytes:
    b = bytearray(REPLY_ACK)
    b[8:12] = session
    return _fix(b)


def enc_state1(session: bytes, on: bool, watts: int, time_left: int, time_on: int, auto_off: int) -> bytes:
    b = bytearray(REPLY_STATE1)
    assert len(b) == 107, len(b)
    b[8:12] = session
    b[75] = 1 if on else 0
    b[77:79] = struct.pack("<H", watts)
    b[89:93] = struct.pack("<I", time_left)
    b[93:97] = struct.pack("<I", time_on)
    b[97:101] = struct.pack("<I", auto_off)
    return _fix(b)


def enc_shutter(session: bytes, position: int, direction: str) -> bytes:
    b = bytearray(REPLY_SHUTTER)
    b[8:12] = session
    b[76] = position
    b[78:80] = bytes.fromhex(direction)
    return _fix(b)


def enc_breeze(session: bytes, on: bool, mode: int, target: int, fan: int, swing: int, temp10: int,
               remote_id: str) -> bytes:
    b = bytearray(REPLY_BREEZE)
    b[8:12] = session
    b[76:78] = struct.pack("<H", temp10)
    b[78] = 1 if on else 0
    b[79] = mode
    b[80] = target
    b[81] = (fan << 4) | swing
    rid = remote_id.encode("ascii")
    assert 1 <= len(rid) <= 8
    b[84:92] = rid + b"\x00" * (8 - len(rid))
    return _fix(b)


def enc_schedules(session: bytes, records: List[bytes]) -> bytes:
    b = bytearray(SCHED_HEADER)
    b[8:12] = session
    for r in records:
        assert len(r) == 16
        b += r
    b += b"\x00" * 4
    return _fix(b)


def sched_record(slot: int, enabled: int, mask: int, state: int, start: int, end: int) -> bytes:
    return bytes([slot, enabled, mask, state]) + struct.pack("<II", start, end) + bytes.fromhex("ce0e0000")


def selfcheck(repo_tests: Optional[str] = None) -> None:
    # encode(decode(capture)) == capture, and decoded values are those the repo's tests document
    d = decode_broadcast(CAP_HEATER)
    assert d["name"] == "My Switcher Boiler" and d["ip_address"] == "192.168.1.33"
    assert d["mac_address"] == "12:A1:A2:1A:BC:1A" and d["device_id"] == "aaaaaa" and d["device_type"] == "V2_ESP"
    d = decode_broadcast(CAP_BREEZE)
    assert d["name"] == "Switcher Breeze_5679" and d["ip_address"] == "192.168.50.77", d
    assert d["mac_address"] == "BC:FF:4D:4A:56:79" and d["remote_id"] == "ELEC7022" and d["mode"] == "DRY", d
    assert d["temperature"] == 28.1 and d["target_temperature"] == 24 and d["device_state"] == "OFF"
    d = decode_broadcast(CAP_RUNNER)
    assert d["name"] == "Switcher Run_1E42" and d["ip_address"] == "192.168.50.98" and d["position"] == 24
    assert d["mac_address"] == "94:B9:7E:01:1E:42"
    for cap, on in ((CAP_HEATER, False), (CAP_PLUG, False)):
        s = {"model": cap[74:76].hex(), "id": cap[18:21].hex(), "key": cap[40:41].hex(), "ip": list(cap[76:80]),
             "mac": list(cap[80:86]), "name": cap[42:74].rstrip(b"\0").decode(), "on": cap[133] == 1,
             "watts": struct.unpack("<H", cap[135:137])[0], "remaining": struct.unpack("<I", cap[147:151])[0],
             "auto_off": struct.unpack("<I", cap[155:159])[0]}
        assert encode_broadcast(s) == cap
    c = CAP_BREEZE
    s = {"model": "0e01", "id": c[18:21].hex(), "key": c[40:41].hex(), "ip": list(c[77:81]), "mac": list(c[81:87]),
         "name": c[42:74].rstrip(b"\0").decode(), "on": c[137] == 1, "temp10": struct.unpack("<H", c[135:137])[0],
         "mode": c[138], "target": c[139], "fan": c[140] >> 4, "swing": c[140] & 15, "remote_id": c[143:151].decode()}
    assert encode_broadcast(s) == c
    c = CAP_RUNNER
    s = {"model": "0c02", "id": c[18:21].hex(), "key": c[40:41].hex(), "ip": list(c[77:81]), "mac": list(c[81:87]),
         "name": c[42:74].rstrip(b"\0").decode(), "position": c[135], "direction": c[137:139].hex()}
    assert encode_broadcast(s) == c
    # replies: re-encoding the captures' own values reproduces the captured field bytes
    r = enc_breeze(REPLY_BREEZE[8:12], False, 2, 0x18, 0, 0, 0x0119, "ELEC7022")
    assert r[40:-4] == REPLY_BREEZE[40:-4], "breeze reply codec disagrees with capture"
    r = enc_shutter(REPLY_SHUTTER[8:12], 0x32, "0000")
    assert r[40:-4] == REPLY_SHUTTER[40:-4], "shutter reply codec disagrees with capture"
    if repo_tests:
        import os
        p = os.path.join(repo_tests, "testresources", "dummy_responses", "get_state_response.txt")
        if os.path.exists(p):
            cap = bytes.fromhex(open(p).read().strip())
            assert len(cap) == len(REPLY_STATE1) == 107
            assert cap[40:] == REPLY_STATE1[40:]
