"""Reference frame layouts (golden copy of the protocol at the pinned commit).

Written from the protocol facts, not by importing aioswitcher.  `build()` makes
the unsigned frame for an operation; `classify()` names a written unit;
`compare()` reports the first byte that differs together with the field it
belongs to.
"""
from __future__ import annotations

import struct
from typing import Any, Dict, List, Optional, Tuple

from .crc import signature

Z = b"\x00"

MID_T1 = bytes.fromhex("340001000000000000000000")
MID_LOGIN2 = bytes.fromhex("ff0301000000000000000000")
MID_T2_STATE = bytes.fromhex("390001000000000000000000")
MID_BREEZE = bytes.fromhex("000001000000000000000000")
MID_STOP = bytes.fromhex("232301000000000000000000")
MID_POS = bytes.fromhex("290401000000000000000000")

FAM1 = bytes.fromhex("0232")
FAM2 = bytes.fromhex("0305")

# kind -> (family, opcode, mid)
HEAD = {
    "login1": (FAM1, "a100", MID_T1),
    "login2": (FAM2, "a600", MID_LOGIN2),
    "get_state1": (FAM1, "0103", MID_T1),
    "get_state2": (FAM2, "0103", MID_T2_STATE),
    "control": (FAM1, "0102", MID_T1),
    "auto_off": (FAM1, "0102", MID_T1),
    "set_name": (FAM1, "0202", MID_T1),
    "get_schedules": (FAM1, "0102", MID_T1),
    "delete_schedule": (FAM1, "0102", MID_T1),
    "create_schedule": (FAM1, "0102", MID_T1),
    "breeze_command": (FAM2, "0102", MID_BREEZE),
    "breeze_update": (FAM2, "010e", MID_BREEZE),
    "runner_stop": (FAM2, "0102", MID_STOP),
    "runner_position": (FAM2, "0102", MID_POS),
}

PAD36 = Z * 36


def le16(n: int) -> bytes:
    return struct.pack("<H", n)


def le32(n: int) -> bytes:
    return struct.pack("<I", n)


def body_fields(kind: str, a: Dict[str, Any]) -> List[Tuple[str, bytes]]:
    """Bytes after the 40-byte header, as (field name, bytes) pieces."""
    dev = ("device_id", a.get("device_id", b""))
    if kind == "login1":
        return [("login_key", a["key"]), ("fixed", Z * 37)]
    if kind == "login2":
        return [dev, ("fixed", Z)]
    if kind in ("get_state1", "get_state2"):
        return [dev, ("fixed", Z)]
    pre = [dev, ("fixed", PAD36)]
    if kind == "control":
        return pre + [("fixed", bytes.fromhex("00010600")), ("on_off", bytes([a["on"]])), ("fixed", Z),
                      ("timer_seconds", le32(a["timer"]))]
    if kind == "auto_off":
        return pre + [("fixed", bytes.fromhex("00040400")), ("auto_shutdown_seconds", le32(a["seconds"]))]
    if kind == "set_name":
        return pre + [("fixed", Z), ("name", a["name32"])]
    if kind == "get_schedules":
        return pre + [("fixed", bytes.fromhex("00060000"))]
    if kind == "delete_schedule":
        return pre + [("fixed", bytes.fromhex("00080100")), ("slot", bytes([a["slot"]]))]
    if kind == "create_schedule":
        return pre + [("fixed", bytes.fromhex("00030c00ff01")), ("day_mask", bytes([a["mask"]])),
                      ("fixed", b"\x01"), ("start", le32(a["start"])), ("end", le32(a["end"]))]
    if kind == "breeze_command":
        payload = Z * 4 + a["text"]
        return pre + [("fixed", bytes.fromhex("3701")), ("ir_length", le16(len(payload))),
                      ("fixed", Z * 4), ("ir_text", a["text"])]
    if kind == "breeze_update":
        return pre + [("fixed", bytes.fromhex("370100030b0400")), ("state", bytes([a["state"]])),
                      ("mode", bytes([a["mode"]])), ("target", bytes([a["target"]])),
                      ("fan_swing", bytes([(a["fan"] << 4) | a["swing"]]))]
    if kind == "runner_stop":
        return pre + [("fixed", bytes.fromhex("370202000000"))]
    if kind == "runner_position":
        return pre + [("fixed", bytes.fromhex("37010100")), ("position", bytes([a["position"]]))]
    raise KeyError(kind)


def build(kind: str, session: bytes, ts: int, a: Dict[str, Any]) -> Tuple[bytes, List[Tuple[int, int, str]]]:
    """Return (unsigned frame, field map [(start, end, name)])."""
    fam, op, mid = HEAD[kind]
    body = body_fields(kind, a)
    blen = sum(len(b) for _, b in body)
    total = 40 + blen + 4
    pieces = [("magic", b"\xfe\xf0"), ("length", le16(total & 0xFFFF)), ("family", fam),
              ("opcode", bytes.fromhex(op)), ("session", session), ("fixed", mid),
              ("timestamp", le32(ts & 0xFFFFFFFF)), ("fixed", Z * 10), ("terminator", b"\xf0\xfe")] + body
    out = bytearray()
    fmap = []
    for name, b in pieces:
        fmap.append((len(out), len(out) + len(b), name))
        out += b
    return bytes(out), fmap


def field_at(fmap: List[Tuple[int, int, str]], off: int) -> str:
    for s, e, n in fmap:
        if s <= off < e:
            return n
    return "beyond-end"


def classify(unit: bytes) -> str:
    """Name the frame kind a written unit is (by family/opcode and sub-command)."""
    if len(unit) < 16:
        return "unknown"
    fo = unit[4:8].hex()
    if fo == "0232a100":
        return "login1"
    if fo == "0305a600":
        return "login2"
    if fo == "02320103":
        return "get_state1"
    if fo == "03050103":
        return "get_state2"
    if fo == "02320202":
        return "set_name"
    if fo == "0305010e":
        return "breeze_update"
    if fo == "02320102":
        sub = unit[80] if len(unit) > 80 else -1
        return {1: "control", 4: "auto_off", 6: "get_schedules", 8: "delete_schedule",
                3: "create_schedule"}.get(sub, "unknown")
    if fo == "03050102":
        mid = unit[12:15].hex()
        return {"232301": "runner_stop", "290401": "runner_position", "000001": "breeze_command"}.get(mid, "unknown")
    return "unknown"


def wellformed_problems(unit: bytes) -> List[str]:
    """C01 clauses for one written unit; empty list = fine."""
    p = []
    n = len(unit)
    if n < 44:
        return ["frame shorter than header+signature (%d bytes)" % n]
    if unit[0:2] != b"\xfe\xf0":
        p.append("magic")
    if struct.unpack("<H", unit[2:4])[0] != n:
        p.append("length-field")
    if unit[38:40] != b"\xf0\xfe":
        p.append("terminator")
    if unit[-4:] != signature(unit[:-4]):
        p.append("signature")
    return p


def compare(unit: bytes, expected: bytes, fmap, ignore=("timestamp",)) -> Optional[Tuple[int, str]]:
    """First difference between the unsigned part of `unit` and `expected`."""
    got = unit[:-4] if len(unit) >= 4 else unit
    m = min(len(got), len(expected))
    for i in range(m):
        if got[i] != expected[i]:
            f = field_at(fmap, i)
            if f in ignore:
                continue
            return i, f
    if len(got) != len(expected):
        return m, "frame-length(%d!=%d)" % (len(got) + 4, len(expected) + 4)
    return None
