"""IR code-set generator and the reference best-match lookup (C15's semantics, used as C16's oracle)."""
from __future__ import annotations

import re
from typing import Any, Dict, List, Optional, Tuple

SPECIAL_IDS = ["ELEC7022", "ZM079055", "ZM079065", "ZM079049"]
MODE_CODE = {1: "aa", 2: "ad", 3: "aw", 4: "ar", 5: "ah"}
CODE_MODE = {v: k for k, v in MODE_CODE.items()}

_ALPHA = "ABCDEFGHIJKLMNOPQRSTUVWXYZ0123456789|,[]"


def _text(rng, n: int) -> str:
    return "".join(rng.choices(_ALPHA, k=n)) if n > 0 else ""


def gen_irset(rng, special: Optional[bool] = None, toggle: Optional[bool] = None,
              density: Optional[float] = None) -> Dict[str, Any]:
    special = rng.random() < 0.5 if special is None else special
    toggle = rng.random() < 0.5 if toggle is None else toggle
    density = rng.choice([1.0, 1.0, 0.8, 0.5]) if density is None else density
    if special:
        rid = rng.choice(SPECIAL_IDS)
    elif rng.random() < 0.3:
        # ordinary remotes whose ids are near misses of the separate-swing ones
        rid = rng.choice(["ELEC7001", "ELEC7023", "ELEC7021", "ZM079056", "ZM079050", "ZM079064", "ELEC70", "ZM0790", "elec7022",
                          "ELEC702", "LEC7022"])
    else:
        rid = "".join(rng.choice("ABCDEFGHJKLMNPQRSTUVWXYZ") for _ in range(4)) + "%04d" % rng.randrange(10000)
    modes = [m for m in (1, 2, 3, 4, 5) if rng.random() < 0.75] or [rng.choice([1, 2, 3, 4, 5])]
    lo = rng.randrange(16, 24)
    hi = rng.randrange(lo, 31)
    keys: List[str] = []
    for m in modes:
        code = MODE_CODE[m]
        fans = [f for f in range(4) if rng.random() < 0.8]
        swings = rng.random() < 0.7
        stems = [code + str(t) for t in range(lo, hi + 1)] if m in (4, 5) else [code]
        for st in stems:
            # the bare stem is the fallback the lookup reaches after dropping swing and fan
            if rng.random() < 0.85 or not fans:
                keys.append(st)
            for f in fans:
                keys.append("%s_f%d" % (st, f))
                if swings:
                    keys.append("%s_f%d_d1" % (st, f))
    # sparse sets: drop keys at random but keep at least one key per mode
    kept = []
    for k in keys:
        if rng.random() < density:
            kept.append(k)
    for m in modes:
        if not any(k.startswith(MODE_CODE[m]) for k in kept):
            kept.append([k for k in keys if k.startswith(MODE_CODE[m])][0])
    keys = kept
    if toggle:
        keys = keys + ["on_" + k for k in keys if rng.random() < max(density, 0.6)]
    else:
        keys.append("off")
    if special:
        keys += ["FUN_d0", "FUN_d1"]
    rng.shuffle(keys)
    # text sizes: mostly short, some that push the frame past 255 bytes, some tiny, a few huge
    waves = []
    for i, k in enumerate(keys):
        r = rng.random()
        if r < 0.55:
            total = rng.randrange(12, 120)
        elif r < 0.7:
            total = rng.randrange(1, 12)
        elif r < 0.95:
            total = rng.randrange(150, 400)
        else:
            total = rng.randrange(400, 2001)
        tag = "%X" % i                      # makes every code text unique within the set
        total = max(total, len(tag) + 2)
        plen = rng.randrange(0, total - len(tag))
        hlen = total - 1 - plen
        para = _text(rng, plen)
        hexc = (tag + _text(rng, hlen))[:hlen] if hlen >= len(tag) else tag
        waves.append({"Key": k, "Para": para, "HexCode": hexc})
    return {"IRSetID": rid, "OnOffType": 1 if toggle else 0, "IRWaveList": waves}


_CAP_CACHE: Dict[int, Tuple[Dict[str, Any], Dict[str, Any]]] = {}


def capabilities(irset: Dict[str, Any]) -> Dict[str, Any]:
    hit = _CAP_CACHE.get(id(irset))
    if hit is not None and hit[0] is irset:
        return hit[1]
    cap = _capabilities(irset)
    if len(_CAP_CACHE) > 64:
        _CAP_CACHE.clear()
    _CAP_CACHE[id(irset)] = (irset, cap)
    return cap


def _capabilities(irset: Dict[str, Any]) -> Dict[str, Any]:
    keys = [w["Key"] for w in irset["IRWaveList"]]
    modes = []
    for k in keys:
        m = CODE_MODE.get(k[0:2])
        if m and m not in modes:
            modes.append(m)
    temps = [int(m.group(2)) for m in (re.match(r"^(a[a-z])(\d\d)", k) for k in keys) if m]
    return {"modes": modes, "min": min(temps) if temps else None, "max": max(temps) if temps else None,
            "toggle": irset["OnOffType"] == 1, "special": irset["IRSetID"] in SPECIAL_IDS}


def ref_lookup(irset: Dict[str, Any], on: bool, mode: int, target: int, fan: int, swing: bool,
               prev_on: Optional[bool]) -> Tuple[str, Optional[str]]:
    """Returns (verdict, text): verdict in {"code", "bad-mode", "grey"}."""
    cap = capabilities(irset)
    table = {w["Key"]: w["Para"] + "|" + w["HexCode"] for w in irset["IRWaveList"]}
    if mode not in cap["modes"]:
        return "bad-mode", None
    if not cap["toggle"] and not on:
        return ("code", table["off"]) if "off" in table else ("grey", None)
    prefix = "on_" if (cap["toggle"] and prev_on is not None and prev_on != on) else ""
    stem = MODE_CODE[mode]
    if mode in (4, 5):
        if cap["max"] is None:
            return "grey", None
        t = min(max(target, cap["min"]), cap["max"])
        stem += str(t)
    cands = []
    if swing:
        cands.append("%s%s_f%d_d1" % (prefix, stem, fan))
    cands.append("%s%s_f%d" % (prefix, stem, fan))
    cands.append("%s%s" % (prefix, stem))
    for c in cands:
        if c in table:
            return "code", table[c]
    return "grey", None


def ref_swing(irset: Dict[str, Any], swing: bool) -> Tuple[str, Optional[str]]:
    table = {w["Key"]: w["Para"] + "|" + w["HexCode"] for w in irset["IRWaveList"]}
    k = "FUN_d1" if swing else "FUN_d0"
    return ("code", table[k]) if k in table else ("grey", None)
