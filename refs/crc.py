"""Independent bit-by-bit CRC-16/CCITT (poly 0x1021) and the double signature."""


def crc16(data: bytes, init: int = 0x1021) -> int:
    crc = init
    for byte in data:
        crc ^= byte << 8
        for _ in range(8):
            if crc & 0x8000:
                crc = ((crc << 1) ^ 0x1021) & 0xFFFF
            else:
                crc = (crc << 1) & 0xFFFF
    return crc


_TABLE = []
for _i in range(256):
    _c = _i << 8
    for _ in range(8):
        _c = ((_c << 1) ^ 0x1021) & 0xFFFF if _c & 0x8000 else (_c << 1) & 0xFFFF
    _TABLE.append(_c)


def crc16_fast(data: bytes, init: int = 0x1021) -> int:
    crc = init
    for byte in data:
        crc = ((crc << 8) & 0xFFFF) ^ _TABLE[((crc >> 8) ^ byte) & 0xFF]
    return crc


def signature(body: bytes) -> bytes:
    """The 4 trailing bytes the protocol appends to `body`."""
    c1 = crc16_fast(body)
    s1 = bytes([c1 & 0xFF, c1 >> 8])
    c2 = crc16_fast(s1 + b"\x30" * 32)
    return s1 + bytes([c2 & 0xFF, c2 >> 8])


def sign(body: bytes) -> bytes:
    return body + signature(body)


def selfcheck() -> None:
    import os
    for n in (0, 1, 2, 7, 40, 300):
        d = os.urandom(n)
        assert crc16(d) == crc16_fast(d)
    # literal pinned in the repository's own test-suite (get-state frame, id a123bc)
    body = bytes.fromhex("fef0300002320103" "01000000" "340001000000000000000000" "ef8db35c"
                         "00000000000000000000f0fe" "a123bc" "00")
    assert signature(body) == bytes.fromhex("42a9a1b2"), "reference signature disagrees with pinned literal"
