#!/bin/bash
# soak.sh <tier> <first-seed> <last-seed> : run every check for a range of VERIF_SEED values; print only non-OK results
tier=$1; a=$2; b=$3
cd "$(dirname "$0")/.."
export VERIF_NO_EVIDENCE=1
export VERIF_REPLAY_DIR=${VERIF_REPLAY_DIR:-$PWD/replays-soak}
for sd in $(seq $a $b); do
  for p in C01 C02 C03 C05 C06 C07 C08 C09 C10 C11 C13 C16 C17 C18; do
    out=$(VERIF_SEED=$sd ./check $p $tier 2>&1 | grep -v WARNING)
    if ! echo "$out" | grep -q "^OK property=$p"; then
      echo "=== seed $sd $p"; echo "$out" | grep -v "^check" | cut -c1-600 | head -20
    fi
  done
  echo "seed $sd done $(date +%T)"
done
