#!/bin/bash
# run_all.sh quick|thorough : every registered check in turn, one summary line each
tier=${1:-quick}
cd "$(dirname "$0")/.."
for p in C01 C02 C03 C05 C06 C07 C08 C09 C10 C11 C13 C16 C17 C18; do
  s=$(date +%s)
  out=$(./check $p $tier 2>&1 | grep -v WARNING)
  rc=$?
  rcs=$(echo "$out" | grep -c "^VIOLATION\|HARNESS-ERROR")
  echo "$p rc_lines=$rcs $(( $(date +%s) - s ))s $(echo "$out" | grep '^runs=' | cut -c1-90) $(echo "$out" | grep -m2 'VIOLATION\|HARNESS' | cut -c1-200)"
done
