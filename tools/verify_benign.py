#!/venv/bin/python
"""verify_benign.py <name> <dir-with-patch.diff-meta.json>

A behaviour-preserving refactor written by an independent sub-agent: apply it in a fresh worktree, confirm the
pinned suite's failing set is unchanged, then run EVERY quick check against it.  All must exit 0 (no alarm on
code where the properties hold).  Result stored under /verif/benign/<name>/."""
import json
import os
import shutil
import subprocess
import sys
import time

name, src = sys.argv[1], sys.argv[2]
props = sys.argv[3:] or ["C01", "C02", "C03", "C05", "C06", "C07", "C08", "C09", "C10", "C11", "C13", "C16", "C17", "C18"]
WT = "/tmp/vs/benign-%s" % name
VERIF = "/verif"


def sh(cmd, **kw):
    return subprocess.run(cmd, shell=True, capture_output=True, text=True, **kw)


def failures(wt):
    p = sh("cd %s && PYTHONPATH=%s/src /venv/bin/python -m pytest -q -p no:cacheprovider -rf 2>&1" % (wt, wt), timeout=900)
    # two tests of the pinned suite depend on the wall clock (one fails 23:00-24:00 UTC, one in the last half second
    # of a minute); they are unrelated to any change under test
    flaky = ("test_pretty_next_run_with_todays_day_should_return_due_today",
             "test_hexadecimale_timestamp_to_localtime_with_the_current_timestamp_should_return_a_time_string")
    return sorted(l.split(" ")[1] for l in p.stdout.splitlines() if l.startswith("FAILED") and not any(f in l for f in flaky))


os.makedirs("/tmp/vs", exist_ok=True)
sh("git -C /repo worktree remove --force %s" % WT)
r = sh("git -C /repo worktree add -q --detach %s HEAD" % WT)
assert r.returncode == 0, r.stderr
dest = os.path.join(VERIF, "benign", name)
os.makedirs(dest, exist_ok=True)
for f in ("patch.diff", "meta.json", "equiv.py"):
    if os.path.exists(os.path.join(src, f)):
        shutil.copy(os.path.join(src, f), os.path.join(dest, f))
out = {"name": name}
try:
    base = failures(WT)
    a = sh("git -C %s apply %s" % (WT, os.path.join(dest, "patch.diff")))
    out["patch_applies"] = a.returncode == 0
    out["apply_error"] = a.stderr[-300:]
    after = failures(WT)
    out["suite_failing_set_unchanged"] = after == base
    out["suite_new_failures"] = sorted(set(after) - set(base))
    st = sh("git -C %s diff --shortstat" % WT)
    out["diffstat"] = st.stdout.strip()
    checks = {}
    for pid in props:
        t0 = time.time()
        env = dict(os.environ, VERIF_REPO=WT, VERIF_NO_EVIDENCE="1", VERIF_REPLAY_DIR=os.path.join(dest, "replays"))
        p = subprocess.run([os.path.join(VERIF, "check"), pid, "quick"], capture_output=True, text=True, env=env, timeout=3000)
        keys = [l.strip()[5:] for l in p.stdout.splitlines() if l.strip().startswith("key: ")]
        what = [l.strip()[6:300] for l in p.stdout.splitlines() if l.strip().startswith("what: ")]
        checks[pid] = {"rc": p.returncode, "keys": keys[:6], "what": what[:3], "wall_s": round(time.time() - t0, 1),
                       "tail": "" if p.returncode == 0 else p.stdout[-400:]}
        print(pid, p.returncode, keys[:3], flush=True)
    out["checks"] = checks
    out["alarms"] = {k: v["keys"] for k, v in checks.items() if v["rc"] != 0}
finally:
    sh("git -C /repo worktree remove --force %s" % WT)
meta_p = os.path.join(dest, "meta.json")
try:
    meta = json.load(open(meta_p))
except Exception:
    meta = {}
meta["verified_by_me"] = out
json.dump(meta, open(meta_p, "w"), indent=1)
print(json.dumps({k: v for k, v in out.items() if k != "checks"}, indent=1))
