#!/venv/bin/python
"""Regenerates the seeded-change table of DESIGN.md (between the MATRIX markers) from /verif/seeded/*/meta.json."""
import glob
import json
import os

p = "/verif/DESIGN.md"
s = open(p).read()
rows = []
for d in sorted(glob.glob("/verif/seeded/*")):
    m = json.load(open(d + "/meta.json"))
    v = m.get("verified_by_me", {})
    keys = []
    for pid, c in v.get("checks", {}).items():
        keys += c.get("keys", [])[:2]
    needs = (m.get("needs") or m.get("summary") or "")
    if isinstance(needs, (list, dict)):
        needs = json.dumps(needs)
    needs = str(needs).replace("\n", " ").replace("|", "/")[:170]
    rows.append("| `%s` | %s | %s | %s |" % (os.path.basename(d), v.get("property"), needs, ", ".join("`%s`" % k for k in keys[:2])))
head = "| seeded change | property | what it needs to manifest | caught as |\n|---|---|---|---|\n"
a = s.index(head)
b = s.index("\n\n", a + len(head))
s = s[:a] + head + "\n".join(rows) + s[b:]
open(p, "w").write(s)
print(len(rows), "rows")
