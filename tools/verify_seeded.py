#!/venv/bin/python
"""verify_seeded.py <property> <name> <dir-with-patch.diff-demo.py-meta.json> [extra check ids...]

Confirms a seeded change in a fresh scratch worktree (applies, suite outcome unchanged, demo fails with / passes
without), runs the property's quick check against it, stores everything under /verif/seeded/<name>/ and removes
the worktree."""
import json
import os
import shutil
import subprocess
import sys
import time

prop, name, src = sys.argv[1], sys.argv[2], sys.argv[3]
extra = sys.argv[4:]
WT = "/tmp/vs/%s" % name
VERIF = "/verif"


def sh(cmd, **kw):
    return subprocess.run(cmd, shell=True, capture_output=True, text=True, **kw)


def failures(wt):
    p = sh("cd %s && PYTHONPATH=%s/src /venv/bin/python -m pytest -q -p no:cacheprovider -rf 2>&1" % (wt, wt), timeout=900)
    # two tests of the pinned suite depend on the wall clock (one fails 23:00-24:00 UTC, one in the last half second
    # of a minute); they are unrelated to any change under test
    flaky = ("test_pretty_next_run_with_todays_day_should_return_due_today",
             "test_hexadecimale_timestamp_to_localtime_with_the_current_timestamp_should_return_a_time_string")
    return sorted(l.split(" ")[1] for l in p.stdout.splitlines() if l.startswith("FAILED") and not any(f in l for f in flaky))


def demo(wt, path):
    if path.endswith(".py") and "def test_" in open(path).read() and "__main__" not in open(path).read():
        cmd = "cd %s && PYTHONPATH=%s/src timeout 300 /venv/bin/python -m pytest -q -p no:cacheprovider %s" % (wt, wt, path)
    else:
        cmd = "cd %s && PYTHONPATH=%s/src timeout 300 /venv/bin/python %s" % (wt, wt, path)
    p = sh(cmd)
    return p.returncode, (p.stdout + p.stderr)[-600:]


os.makedirs("/tmp/vs", exist_ok=True)
sh("git -C /repo worktree remove --force %s" % WT)
r = sh("git -C /repo worktree add -q --detach %s HEAD" % WT)
assert r.returncode == 0, r.stderr
out = {"property": prop, "name": name}
dest = os.path.join(VERIF, "seeded", name)
os.makedirs(dest, exist_ok=True)
for f in os.listdir(src):
    if f in ("patch.diff", "meta.json") or f.startswith("demo"):
        shutil.copy(os.path.join(src, f), os.path.join(dest, f))
demo_path = os.path.join(dest, [f for f in sorted(os.listdir(dest)) if f.startswith("demo")][0])
# make the stored demonstration independent of the scratch location it was written in
import re
_t = open(demo_path).read()
_t2 = re.sub(r'Path\(__file__\)\.resolve\(\)\.parent\.parent / "C\d\d[a-z]?"', 'Path(__import__("os").environ.get("AIOSWITCHER_REPO", "/repo"))', _t)
_t2 = re.sub(r'"/tmp/wt/C\d\d[a-z]?/(tests|src)', r'__import__("os").environ.get("AIOSWITCHER_REPO", "/repo") + "/\1', _t2)
if _t2 != _t:
    open(demo_path, "w").write(_t2)
os.environ["AIOSWITCHER_REPO"] = WT
# demonstrations written by the sub-agents look for the repository next to their own directory
# (/tmp/wt/<orig>-out/demo.py  ->  /tmp/wt/<orig>/tests/...): stage exactly that layout, pointing at OUR worktree
orig = os.path.basename(os.path.normpath(src))
orig = orig[:-4] if orig.endswith("-out") else orig
stage_out = "/tmp/wt/%s-out" % orig
stage_repo = "/tmp/wt/%s" % orig
sh("git -C /repo worktree remove --force %s" % stage_repo)
if os.path.islink(stage_repo):
    os.unlink(stage_repo)
os.makedirs("/tmp/wt", exist_ok=True)
os.makedirs(stage_out, exist_ok=True)
os.symlink(WT, stage_repo)
staged_demo = os.path.join(stage_out, os.path.basename(demo_path))
shutil.copy(demo_path, staged_demo)
stored_demo, demo_path = demo_path, staged_demo
try:
    base = failures(WT)
    rc0, o0 = demo(WT, demo_path)
    out["demo_on_clean_tree_rc"] = rc0
    a = sh("git -C %s apply %s" % (WT, os.path.join(dest, "patch.diff")))
    out["patch_applies"] = a.returncode == 0
    if a.returncode:
        out["apply_error"] = a.stderr[-300:]
    after = failures(WT)
    out["suite_failing_set_unchanged"] = after == base
    out["suite_new_failures"] = sorted(set(after) - set(base))
    rc1, o1 = demo(WT, demo_path)
    out["demo_with_change_rc"] = rc1
    out["demo_tail_with_change"] = o1[-300:]
    imp = sh("PYTHONPATH=%s/src /venv/bin/python -c 'import aioswitcher.api, aioswitcher.bridge, aioswitcher.schedule.parser'" % WT)
    out["imports"] = imp.returncode == 0
    checks = {}
    for pid in [prop] + extra:
        t0 = time.time()
        env = dict(os.environ, VERIF_REPO=WT, VERIF_NO_EVIDENCE="1", VERIF_REPLAY_DIR="/tmp/vs/%s-replays" % name)
        p = subprocess.run([os.path.join(VERIF, "check"), pid, "quick"], capture_output=True, text=True, env=env, timeout=3000)
        keys = [l.strip()[5:] for l in p.stdout.splitlines() if l.strip().startswith("key: ")]
        checks[pid] = {"rc": p.returncode, "keys": keys[:6], "wall_s": round(time.time() - t0, 1),
                       "tail": "" if p.returncode == 1 else p.stdout[-300:]}
    out["checks"] = checks
    out["caught_by"] = [k for k, v in checks.items() if v["rc"] == 1]
finally:
    sh("git -C /repo worktree remove --force %s" % WT)
    if os.path.islink(stage_repo):
        os.unlink(stage_repo)
    shutil.rmtree("/tmp/vs/%s-replays" % name, ignore_errors=True)
ok = out.get("patch_applies") and out.get("suite_failing_set_unchanged") and out.get("demo_on_clean_tree_rc") == 0 \
    and out.get("demo_with_change_rc") not in (0, None) and out.get("imports")
out["confirmed"] = bool(ok)
meta_p = os.path.join(dest, "meta.json")
try:
    meta = json.load(open(meta_p))
except Exception:
    meta = {}
meta["verified_by_me"] = out
meta["demo_layout"] = ("demo.py expects the repository under test at /tmp/wt/%s (or $AIOSWITCHER_REPO) and itself at "
                       "/tmp/wt/%s-out/demo.py; tools/verify_seeded.py stages that layout") % (orig, orig)
json.dump(meta, open(meta_p, "w"), indent=1)
print(json.dumps(out, indent=1))
